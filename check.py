#!/venv/bin/python
"""Single entry point:  check.py <property id> [--tier quick|thorough] [--replay path] [--quiet]

Exit 0: property held on everything explored (known findings are printed as KNOWN-FINDING lines).
Exit 1: a violation not listed in KNOWN_FINDINGS.txt, with `VIOLATION property=<id> replay=<path>`.
Exit 2: harness error (vacuous run, non-reproducible violation, ...).
"""
import argparse
import importlib
import os
import sys
import time

if sys.flags.hash_randomization and os.environ.get("VF_REEXEC") != "1":
    # re-exec with a fixed hash seed so that set/dict iteration is reproducible across processes
    env = dict(os.environ, PYTHONHASHSEED="0", VF_REEXEC="1")
    os.execve(sys.executable, [sys.executable] + sys.argv, env)

sys.path.insert(0, os.path.dirname(os.path.abspath(__file__)))
from vf import core, explorer  # noqa: E402


def main():
    ap = argparse.ArgumentParser()
    ap.add_argument("prop")
    ap.add_argument("--tier", default=None)
    ap.add_argument("--replay", default=None)
    ap.add_argument("--quiet", action="store_true")
    ap.add_argument("--only", default=None, help="comma-separated space names (debugging aid; evidence still written)")
    a = ap.parse_args()
    if a.tier:
        os.environ["VERIF_TIER"] = a.tier
    tier = core.tier()
    core.bind()
    core.scratch_root()  # created before workers are forked, so that they inherit it
    os.chdir(core.VERIF_DIR)
    prop = a.prop.upper()
    mod = importlib.import_module("checks." + prop.lower())
    t0 = time.time()
    if a.replay:
        if hasattr(mod, "replay"):
            return mod.replay(a.replay, a.quiet)
        import json
        rec_tier = json.load(open(a.replay, encoding="utf8")).get("tier", "thorough")
        return explorer.replay(prop, mod.spaces(rec_tier), a.replay, a.quiet)
    if hasattr(mod, "run"):
        return mod.run(tier, t0)
    spaces = mod.spaces(tier)
    if a.only:
        spaces = [s for s in spaces if s.name in a.only.split(",")]
    reports = explorer.explore(spaces)
    extra = mod.extra(reports, tier) if hasattr(mod, "extra") else None
    return explorer.finish(prop, mod.LEVEL, reports, tier, t0, mod.RULE, getattr(mod, "ASSUMPTIONS", ()), extra,
                           exhaustive=getattr(mod, "EXHAUSTIVE", True))


if __name__ == "__main__":
    os.environ.pop("VF_SCRATCH", None)  # every check process owns (and removes) its own scratch directory
    try:
        rc = main()
    finally:
        core.remove_scratch()
    sys.exit(rc)

#!/venv/bin/python
"""Developer aid (never run by a check): label the unlisted minimal violators of a dump produced with
VERIF_DUMP=<file> and print `finding:` lines for KNOWN_FINDINGS.txt.  Every line still has to be read by a
human before it is committed; anything no rule recognises is printed as UNTRIAGED and must not be listed."""
import json, re, sys
sys.path.insert(0, "/verif")
from vf import core

def c01(r):
    t, o, sig = r["describe"]["text"], r["detail"].get("output", ""), r["sig"]
    d = r["detail"].get("diff", "")
    if sig == "A:sem-only":
        return "K-sem: semantic mode wraps every sentence as if it began the paragraph, so a marker word that starts a new sentence line is not escaped (not repairable without changing tests/testdocs expectations)"
    if sig.startswith("B:") and re.search(r"(^|\n)[> ]*(<div>|<!--)", o):
        return "K-htmlblock: a wrapped line starting with <div> or <!-- starts an HTML block for a CommonMark reader (flowmark's own reader has HTML blocks switched off)"
    if re.search(r"\[\^?x\]:", t) and ("DEF" in d or "P→∅" in d or "FNDEF" in d):
        return "K-def-join: a paragraph beginning with a bracketed label and colon becomes a (footnote) definition when its lines are joined or split"
    if re.search(r"\d+\)", t) and re.search(r"\d+\.", o) and "ITEM" in d:
        return "K-delim: ordered lists with ')' are rendered with '.', which merges two adjacent lists that differed only in the delimiter"
    if re.search(r"\\\n|\\ |\\$", t) and ("BR" in d or "T.s" in d or "LIST→P" in d or "QUOTE→P" in d):
        if "LIST→P" in d or "QUOTE→P" in d:
            return "K-empty-first-segment: a paragraph that starts with a hard break loses the container prefix of its first line"
        return "K-bslash: a word ending in a backslash that lands at the end of a wrapped line becomes a hard break"
    if re.search(r"(\{%|\{\{|<!--).*\n.*\d\\\.", t) and re.search(r"\n\d\. ", o):
        return "K-literal-period: an escaped ordered-list marker after a tag-adjacent newline loses its escape (render_literal only looks at the paragraph start) and becomes a list"
    if re.search(r"^[*] (---|___)", t):
        return "K-hr-in-star-list: a thematic break inside a '*' bullet item is rendered '* * *' after the '* ' marker and reads as a rule"
    if re.search(r"^(- )?(---|\*\*\*|___|--) aa", t):
        return "K-first-word-hr: the first word of a paragraph is never escaped; alone on its line after wrapping it is a rule / Setext underline"
    if "[^" in t and r["space"] == "blocks":
        return "K-footnote-body: block content inside or after a footnote definition is re-indented (Marko's footnote extension keeps body indentation), so lists/paragraphs nest differently on the next read"
    if re.search(r"^- \[x\]: u", t):
        return "K-def-in-item: a link definition as first block of a list item followed by a nested list loses the nesting"
    if r["space"].startswith("hazard") and "hb" in json.dumps(r["case"]) and "\\\n" in t:
        return "K-hardbreak-segment: each hard-break segment is wrapped as if it began the paragraph, so a marker word that starts a segment line is not escaped"
    if "TABLE" in d and "|" in t:
        return "K-pipe-table: wrapping can put a line of pipes and dashes under a line containing a pipe, which reads as a table"
    if re.search(r"(\\|  )\n.*\n(---|===)", t, re.S):
        return "K-heading-hardbreak: a hard break inside a multi-line Setext heading cannot be expressed in the ATX heading that is emitted"
    return None

def c02(r):
    if r["space"] == "typo-fn":
        return "K-quotes-fn: smart_quotes() converts adjacent or nested quoted phrases only on a second application (a match consumes the separator / the inner phrase); repair changes tests/testdocs expectations"
    t, sig = r["describe"]["text"], r["sig"]
    p1, p2 = r["detail"].get("pass1", ""), r["detail"].get("pass2", "")
    if "sem-only" in sig:
        return "K-sem"
    if t.strip() == "---":
        return "K-fm-unclosed"
    if re.search(r"\d+\)", t) and re.search(r"\d+\.", p1):
        return "K-delim"
    if "[^" in t:
        return "K-footnote-body"
    if t.startswith("- [x]: u"):
        return "K-def-in-item"
    if re.search(r"(\\|  )\n.*\n(---|===)", t, re.S):
        return "K-heading-hardbreak"
    if ("..." in p1 and "…" in p2) or ("'" in p1 and "’" in p2):
        return "K-typo-context"
    if re.search(r"(^|\n)[> ]*>\n", p1) and re.search(r"(^|\n)[> ]*> +\n", p2):
        return "K-quote-blank"
    if re.search(r"(^|\n)[ >]*>? *\n", p1) and "- > -" in t:
        return "K-nested-first-loose"
    if re.search(r"1\\\.", p1) and not re.search(r"1\\\.", p2):
        return "K-literal-period"
    if re.search(r"\\\n", p1) and "\\ " in t:
        return "K-bslash"
    if re.search(r"^(\*\*\*|---|___)\n", p1) and re.search(r"^(\*\*\*|---|___) ", t):
        return "K-first-word-hr"
    if re.search(r"\{% /t %\}", t) and re.search(r"(^|\n)\{% /t %\}", p1 + p2):
        return "K-closing-tag-unindent"
    if re.search(r"(\{%|\{\{|<!--)", t) and "|" in t and r["space"] == "blocks":
        return "K-tag-block-in-container"
    if re.search(r"(\{%|\{\{|<!--)", t) and re.search(r"\d\. ", t) and r["space"] == "blocks":
        return "K-tag-block-in-container"
    if re.search(r"(\{%|\{\{|<!--)", t) and "|" in t:
        return "K-tag-block-heuristic"
    return None


def c03(r):
    d = r["detail"]
    if "relayout" in d:
        if d.get("typography") and (("..." in d["out_base"] and "…" in d["out_relayout"]) or ("…" in d["out_base"] and "..." in d["out_relayout"])):
            return "K-typo-context"
        if d.get("typography") and re.search(r"[\"'“”‘’]", d["out_base"] + d["out_relayout"]):
            return "K-typo-context"
        return None
    a1, two, direct = d["after_first"], d["two_passes"], d["direct"]
    if d["first_options"]["semantic"] and not d["target_options"]["semantic"] and re.search(r"[.?]\n[ >]*[-#>=]", a1):
        return "K-sem"
    if re.search(r"(%\}|\}\}|-->|#\})(\{%|\{\{|<!--|\{#)", a1 + two + direct) and re.search(r"(%\}|\}\}|-->|#\}) (\{%|\{\{|<!--|\{#)", d["input"]):
        return "K-tag-space"
    if "\\" in two and "\\" not in direct:
        return "K-escape-sticky"
    return None


RULES = {"C01": c01, "C02": c02, "C03": c03}

def assemble():
    import glob
    parts = sorted(glob.glob("/verif/known/*.txt"))
    with open("/verif/KNOWN_FINDINGS.txt", "w", encoding="utf8") as out:
        for p in parts:
            out.write(open(p, encoding="utf8").read().rstrip("\n") + "\n\n")
    print("assembled", len(parts), "parts")


def main():
    if sys.argv[1] == "--assemble":
        return assemble()
    prop, dump = sys.argv[1], sys.argv[2]
    rule = RULES[prop]
    n = 0
    for line in open(dump, encoding="utf8"):
        r = json.loads(line)
        label = rule(r)
        case = core.canon(r["case"])
        if label is None:
            print("UNTRIAGED", r["space"], r["sig"], case, json.dumps(r["describe"], ensure_ascii=False)[:300], json.dumps(r["detail"], ensure_ascii=False)[:300], file=sys.stderr)
            continue
        n += 1
        what = r["describe"].get("text", r["describe"].get("string", ""))
        print(f"finding: property={prop} space={r['space']} sig={r['sig']} case={case} :: {label.split(':')[0]} input={what!r} width={r['describe'].get('width')} semantic={r['describe'].get('semantic')}")
    print(f"# {n} lines", file=sys.stderr)

if __name__ == "__main__":
    main()

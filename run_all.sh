#!/bin/bash
# usage: run_all.sh quick|thorough [ids...]   — runs the registered checks one after another and prints a summary table
tier=${1:-quick}; shift
ids=${@:-C01 C02 C03 C04 C05 C06 C07 C08 C09 C10 C11 C12 C13 C14 C15 C16 C17 C18}
mkdir -p /tmp/runall
for c in $ids; do
  s=$(date +%s)
  /venv/bin/python /verif/check.py $c --tier $tier > /tmp/runall/$c.$tier.log 2>&1
  rc=$?
  e=$(date +%s)
  echo "$c tier=$tier rc=$rc wall=$((e-s))s $(grep -c '^KNOWN-FINDING:' /tmp/runall/$c.$tier.log) known, $(grep -c '^VIOLATION' /tmp/runall/$c.$tier.log) violations, $(grep -c 'KNOWN-FINDING-GONE' /tmp/runall/$c.$tier.log) gone, $(grep -c 'HARNESS ERROR' /tmp/runall/$c.$tier.log) harness"
done

#!/bin/bash
# thorough tier of every check, cheapest first, each with a wall-clock cap; summary lines to stdout
for c in C14 C16 C18 C15 C11 C07 C08 C09 C13 C17 C12 C10 C06 C05 C03 C04 C01 C02; do
  s=$(date +%s)
  timeout 3000 /venv/bin/python check.py $c --tier thorough > thorough_$c.log 2>&1
  rc=$?
  e=$(date +%s)
  echo "$c tier=thorough rc=$rc wall=$((e-s))s $(grep -c '^KNOWN-FINDING:' thorough_$c.log) known, $(grep -c '^VIOLATION' thorough_$c.log) violations, $(grep -c 'HARNESS ERROR' thorough_$c.log) harness"
done

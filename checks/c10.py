"""C10 — cleanups and list-spacing options do exactly what they say and nothing else.

Lists: loose => every pair of sibling items separated by a blank (prefix-only) line; tight => no such line in any
list all of whose items hold one block; preserve => per-list tightness of the output equals that of the input;
all modes: the three outputs are equal once blank/prefix-only lines outside code are deleted, and their Reader-A
trees are equal ignoring tightness.
Cleanups: Reader-A(fmt(x, cleanups=on)) == unbold(Reader-A(fmt(x, cleanups=off))) with `unbold` a reference on the
plain tree, and every line that is not a heading line is byte-identical.
"""
from __future__ import annotations

import itertools
import re

from vf import core, docspace, readers
from vf.explorer import Outcome, Space

core.bind()
from flowmark import reformat_text  # noqa: E402

LEVEL = "exploration"
RULE = ("complete enumeration of lists (1..N items, each item from the item alphabet, each gap tight|blank, bullet/ordered, "
        "contexts, neighbours) x 3 list-spacing modes x cleanups x semantic x widths, and of headings (ATX/Setext, levels, every sequence "
        "of up to 3 emphasis tokens) x contexts; a case is non-trivial when at least two of the three list-spacing outputs differ (lists) "
        "or cleanups changed the output (headings)")
ASSUMPTIONS = ["'items separated by a blank line' = between the last line of an item and the first line of the next sibling item there is a line "
               "that is empty after removing container prefixes", "tightness as read by Reader A (Marko)"]

ITEMS = [
    ("para", ["a"]),
    ("empty", [""]),
    ("para2", ["a", "", "b"]),
    ("code", ["a", "", "```", "x", "```"]),
    ("quote", ["a", "", "> q"]),
    ("nested-tight", ["a", "- n1", "- n2"]),
    ("nested-loose", ["a", "", "- n1", "", "- n2"]),
    ("wrapped", ["aa bb cc dd ee ff gg hh"]),
    ("heading", ["# h"]),
    ("nested-first", ["- n1", "- n2"]),
    # appended later: items whose only block is not a paragraph (the renderer's per-item spacing state is driven by paragraphs)
    ("hr", ["***"]),
    ("code-only", ["```", "x", "```"]),
    ("table", ["| a | b |", "|---|---|"]),
    ("table-rows", ["| a | b |", "|---|---|", "| c | d |"]),      # (the two-line form above is a paragraph for Marko)
    ("para-table", ["a", "", "| x |", "|---|", "| y |"]),
]
CTX = [((), None, None), (("bq",), None, None), (("fn",), None, None), (("ul",), None, None), ((), "p", None), ((), "h", "p"), ((), None, "p")]
MODES = ("preserve", "loose", "tight")


def strip_prefix(line):
    return re.sub(r"^[ >]*", "", line)


def is_blankish(line):
    return re.sub(r"[ >]", "", line) == ""


def lists_of(tree, acc=None, path=()):
    """All LIST nodes of a Reader-A tree as (path, tight, n_items, each_item_single_block)."""
    if acc is None:
        acc = []
    label, attrs, kids = tree
    if label == "LIST":
        a = dict(attrs)
        acc.append((path, a["tight"], len(kids), all(len(k[2]) <= 1 for k in kids)))
    for i, k in enumerate(kids):
        lists_of(k, acc, path + (i,))
    return acc


def drop_blank_lines(text):
    out, fence = [], None
    for ln in text.split("\n"):
        # a fence may directly follow a list marker ("- ```"): strip markers as well as quote / indent prefixes
        core_ln = re.sub(r"^(?:[ >]*(?:[-*+]|\d+[.)]|\[\^\w+\]:)[ ]+)*[ >]*", "", ln)
        m = re.match(r"^(`{3,}|~{3,})", core_ln)
        if m:
            if fence is None:
                fence = m.group(1)
            elif core_ln.strip().startswith(fence[0] * len(fence)):
                fence = None
            out.append(ln)
            continue
        if fence is None and is_blankish(ln):
            continue
        out.append(ln)
    return "\n".join(out)


class Lists(Space):
    prop = "C10"
    name = "lists"

    def __init__(self, tier):
        q = tier == "quick"
        self.maxn = 3 if q else 4
        self.widths = (88,) if q else (88, 8)
        self.item_ids = list(range(len(ITEMS)))
        self.item_reps = [0, 1, 2, 3, 5, 6]
        self.floors = {"modes-differ": 500, "loose-checked": 500, "tight-checked": 200, "loose-pairs-checked": 500}

    def cases(self):
        for ci in range(len(CTX)):
            for ordered in (False, True):
                for n in range(1, self.maxn + 1):
                    # the whole item alphabet in the first two positions (four items: in the first position only -- with 15 item kinds the
                    # complete 15^2 x 6^2 product did not finish in 25 minutes), one representative per kind in the others
                    full = 2 if n <= 3 else 1
                    pools = [self.item_ids] * min(n, full) + [self.item_reps] * max(0, n - full)
                    for items in itertools.product(*pools):
                        for gaps in itertools.product((False, True), repeat=n - 1):
                            for w in self.widths:
                                for sem in ((False,) if w != 88 else (False, True)):
                                    yield (ci, ordered, items, gaps, w, sem)

    def text(self, case):
        ci, ordered, items, gaps, w, sem = case
        lines = []
        for i, it in enumerate(items):
            marker = f"{i + 1}. " if ordered else "- "
            ind = " " * len(marker)
            body = ITEMS[it][1]
            if i and gaps[i - 1]:
                lines.append("")
            for j, bl in enumerate(body):
                if j == 0:
                    lines.append((marker + bl).rstrip())
                else:
                    lines.append((ind + bl) if bl else "")
        layers, b, a = CTX[ci]
        return docspace.in_context(lines, layers, b, a)

    def describe(self, case):
        return {"text": self.text(case), "width": case[4], "semantic": case[5]}

    def smaller(self, case):
        ci, ordered, items, gaps, w, sem = case
        if ci:
            yield (0, ordered, items, gaps, w, sem)
        if ordered:
            yield (ci, False, items, gaps, w, sem)
        for i in range(len(items)):
            if len(items) > 1:
                g2 = gaps[:i] + gaps[i + 1:] if i < len(gaps) else gaps[:-1]
                yield (ci, ordered, items[:i] + items[i + 1:], g2, w, sem)
        for i in range(len(items)):
            if items[i]:
                yield (ci, ordered, items[:i] + (0,) + items[i + 1:], gaps, w, sem)
        for i in range(len(gaps)):
            if gaps[i]:
                yield (ci, ordered, items, gaps[:i] + (False,) + gaps[i + 1:], w, sem)
        if sem:
            yield (ci, ordered, items, gaps, w, False)
        if w != 88:
            yield (ci, ordered, items, gaps, 88, sem)

    def evaluate(self, case):
        ci, ordered, items, gaps, w, sem = case
        text = self.text(case)
        outs = {m: reformat_text(text, width=w, semantic=sem, cleanups=False, list_spacing=m) for m in MODES}
        viol, tags = [], []
        if len(set(outs.values())) > 1:
            tags.append("modes-differ")
        tin = readers.norm_a(text)
        trees = {m: readers.norm_a(outs[m]) for m in MODES}
        # (a) nothing but blank lines between list items changes
        base = drop_blank_lines(outs["preserve"])
        for m in ("loose", "tight"):
            if drop_blank_lines(outs[m]) != base:
                viol.append(("mode-changes-more-than-blank-lines:" + m, {"input": text, "preserve": outs["preserve"], m: outs[m]}))
            d = readers.first_diff(readers.drop_attr(trees["preserve"], "tight"), readers.drop_attr(trees[m], "tight"))
            if d:
                viol.append(("mode-changes-structure:" + m, {"input": text, "diff": d, "preserve": outs["preserve"], m: outs[m]}))
        # (b) preserve keeps every list as authored
        lin, lout = lists_of(tin), lists_of(trees["preserve"])
        if [(p, n) for p, t, n, s in lin] == [(p, n) for p, t, n, s in lout]:
            for (p, t1, n, s), (_, t2, _, _) in zip(lin, lout):
                if n > 1 and t1 != t2:
                    viol.append(("preserve-changes-tightness", {"input": text, "output": outs["preserve"], "list_path": list(p), "was_tight": t1}))
                    break
        # (c) loose: every list of the output is loose (Reader A) when it has >= 2 items
        tags.append("loose-checked")
        for p, t, n, s in lists_of(trees["loose"]):
            if n > 1 and t:
                viol.append(("loose-leaves-tight-list", {"input": text, "output": outs["loose"], "list_path": list(p)}))
                break
        # (c') loose, pair by pair: between the last line of a top-level item of the generated list and the first line of the next
        # one there is a blank (prefix-only) line.  Top-level items are located by their marker directly behind the context prefix.
        layers = CTX[ci][0]
        first, cont = docspace.indent_of(layers)
        olines = outs["loose"].rstrip("\n").split("\n")
        starts = []
        for li, ln in enumerate(olines):
            pre = first if li == 0 else cont
            if ln.startswith(pre) and re.match(r"(?:[-*+]|\d+[.)])(?: |$)", ln[len(pre):]):
                starts.append(li)
        if len(starts) == len(items) and not (CTX[ci][1] or CTX[ci][2]):
            tags.append("loose-pairs-checked")
            for a_, b_ in zip(starts, starts[1:]):
                if b_ - 1 <= a_ or not is_blankish(olines[b_ - 1]):
                    viol.append(("loose-items-not-separated", {"input": text, "output": outs["loose"], "line": olines[b_]}))
                    break
        # (d) tight: every list whose items each hold a single block is tight
        for p, t, n, s in lists_of(trees["tight"]):
            if n > 1 and s:
                tags.append("tight-checked")
                if not t:
                    viol.append(("tight-leaves-loose-list", {"input": text, "output": outs["tight"], "list_path": list(p)}))
                    break
        seen = {}
        for s_, d in viol:
            seen.setdefault(s_, d)
        return Outcome(viol=list(seen.items()), tags=sorted(set(tags)), obs=hash(tuple(outs.values())))


EMPH = ["**a**", "__a__", "***a***", "_**a**_", "**a", "b**", "a", "*a*", "`a`", "{% t %}", "**", "*a **b** c*", "**a** **b**", "[**a**](u)",
        # appended later: emphasis that begins or ends with a bold run but is not bold as a whole
        "***a** b*", "*a **b***", "***a** b c*", "_**a** b_", "**a *b***", "***a* b**"]


def unbold_ref(tree):
    """Reference: a heading whose entire content is one STRONG loses it; EM(STRONG(x)) alone becomes EM(x)."""
    label, attrs, kids = tree
    if label == "H":
        if len(kids) == 1 and kids[0][0] == "STRONG":
            return (label, attrs, kids[0][2])
        if len(kids) == 1 and kids[0][0] == "EM" and len(kids[0][2]) == 1 and kids[0][2][0][0] == "STRONG":
            return (label, attrs, (("EM", (), kids[0][2][0][2]),))
        return tree
    return (label, attrs, tuple(unbold_ref(k) for k in kids))


class Headings(Space):
    prop = "C10"
    name = "headings"
    FORMS = ["# {}", "## {}", "### {} ###", "{}\n===", "{}\n---"]
    HCTX = [((), None, None), (("ul",), None, None), (("bq",), None, None), ((), "p", "p"),
            # appended later: every other container a heading can sit in, and two-layer nestings
            (("fn",), None, None), (("ol",), None, None), (("alert",), None, None), (("ul", "bq"), None, None), (("bq", "ul"), None, None),
            (("fn", "ul"), None, None), (("fnlong",), None, None)]

    def __init__(self, tier):
        self.maxn = 2 if tier == "quick" else 3
        self.floors = {"cleanups-changed-output": 100}

    def cases(self):
        for ci in range(len(self.HCTX)):
            for f in range(len(self.FORMS)):
                for n in range(1, self.maxn + 1):
                    for ks in itertools.product(range(len(EMPH)), repeat=n):
                        for sem in (False, True):
                            yield (ci, f, ks, sem)
                            if n == 1 or ci == 0:
                                yield (ci, f, ks, sem, 1)   # appended later: the same heading in a document without any asterisk

    def text(self, case):
        ci, f, ks, sem = case[:4]
        content = " ".join(EMPH[k] for k in ks)
        if len(case) > 4:
            content = content.replace("**", "__").replace("*", "_")
            lines = self.FORMS[f].format(content).split("\n") + ["", "para __bold__ text"]
        else:
            lines = self.FORMS[f].format(content).split("\n") + ["", "para **bold** text", "", "- **li**"]
        layers, b, a = self.HCTX[ci]
        return docspace.in_context(lines, layers, b, a)

    def describe(self, case):
        return {"text": self.text(case), "semantic": case[3]}

    def smaller(self, case):
        if len(case) > 4:
            yield case[:4]
            for c in self.smaller(case[:4]):
                yield c + (1,)
            return
        ci, f, ks, sem = case
        if ci:
            yield (0, f, ks, sem)
        if f:
            yield (ci, 0, ks, sem)
        for i in range(len(ks)):
            if len(ks) > 1:
                yield (ci, f, ks[:i] + ks[i + 1:], sem)
        for i in range(len(ks)):
            if ks[i] != 6:
                yield (ci, f, ks[:i] + (6,) + ks[i + 1:], sem)
        if sem:
            yield (ci, f, ks, False)

    def evaluate(self, case):
        ci, f, ks, sem = case[:4]
        text = self.text(case)
        off = reformat_text(text, semantic=sem, cleanups=False)
        on = reformat_text(text, semantic=sem, cleanups=True)
        viol, tags = [], []
        if on != off:
            tags.append("cleanups-changed-output")
        t_off, t_on = readers.norm_a(off), readers.norm_a(on)
        exp = unbold_ref(t_off)
        if t_on != exp:
            d = readers.first_diff(exp, t_on)
            viol.append(("cleanups:tree-differs-from-reference", {"input": text, "off": off, "on": on, "diff": d}))
        lo, ln = off.split("\n"), on.split("\n")
        if len(lo) != len(ln):
            viol.append(("cleanups:line-count", {"input": text, "off": off, "on": on}))
        else:
            for x, y in zip(lo, ln):
                if x != y and not re.match(r"^(?:[ >]|[-*+] |\d+[.)] |\[\^[^\]]*\]: )*#{1,6} ", x):
                    viol.append(("cleanups:non-heading-line-changed", {"input": text, "off": off, "on": on, "line": x}))
                    break
        return Outcome(viol=viol, tags=tags, obs=hash(on))


def spaces(tier):
    return [Lists(tier), Headings(tier)]

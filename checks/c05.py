"""C05 — wrapping is lossless, width-bounded and maximal.

Explicit-state model of the greedy filler (vf/wrapmodel.greedy) explored over every word-length
vector / width / initial column / continuation offset inside the bound; EVERY model trace is
replayed against the implementation's public wrapping functions and must produce the same lines;
model-independent postconditions (lossless, bounded, maximal, indented) are evaluated on the
implementation's result as well.  Further spaces drive marker words, atomic multi-word constructs,
fill_text modes, the sentence wrapper and per-paragraph triples recorded inside fill_markdown.
"""
from __future__ import annotations

import itertools
import re

from vf import core, docspace
from vf.explorer import Outcome, Space
from vf import wrapmodel as wm

core.bind()
from flowmark import reformat_text  # noqa: E402
from flowmark.linewrapping.line_wrappers import line_wrap_by_sentence, line_wrap_to_width  # noqa: E402
from flowmark.linewrapping.markdown_filling import fill_markdown  # noqa: E402
from flowmark.linewrapping.text_filling import Wrap, fill_text  # noqa: E402
from flowmark.linewrapping.text_wrapping import (  # noqa: E402
    simple_word_splitter,
    wrap_paragraph,
    wrap_paragraph_lines,
)

LEVEL = "model_checking"
RULE = ("every case of each space below is enumerated and evaluated (no sampling); a case is non-trivial when the "
        "model produced >= 2 lines or an over-long single word, i.e. a wrapping decision was actually exercised; "
        "states = distinct (column, line-nonempty, first-line) model states visited, transitions = words consumed, "
        "traces = model runs replayed against the implementation and compared line by line")
ASSUMPTIONS = [
    "len() is the length function (DEFAULT_LEN_FUNCTION)",
    "fill_text's effective width is width - len(subsequent indent), as the property's mechanism list states",
    "atomic space: two tags of the same kind are never adjacent tokens (their spacing belongs to C06)",
]


def plain_words(lens):
    return ["abcdefghij"[i % 10] * n for i, n in enumerate(lens)]


def split_lines(lines):
    return [ln.split(" ") for ln in lines]


def posts(out, lines, words, width, col0, off, maximal=True):
    if not wm.post_lossless(lines, words):
        out.append(("lossless", {"lines": lines, "words": words}))
        return
    if not wm.post_bounded(lines, width, col0, off):
        out.append(("bound", {"lines": lines, "width": width, "col0": col0, "off": off}))
    if maximal and not wm.post_maximal(lines, width, col0, off):
        out.append(("maximal", {"lines": lines, "width": width, "col0": col0, "off": off}))


def strip_indents(text, init, sub, viol, what):
    """Split result text into lines and remove the expected indents; report a violation if absent."""
    if text == "":
        return []
    raw = text.split("\n")
    res = []
    for i, ln in enumerate(raw):
        ind = init if i == 0 else sub
        if not ln.startswith(ind):
            viol.append(("indent:" + what, {"line": ln, "expected_indent": ind, "index": i}))
            return None
        res.append(ln[len(ind):])
    return res


def sem_bound_sig(line_words, start, width, maxindent):
    """Signature for an over-long line in semantic mode.  The known root cause F1 (short-line merge that
    ignores the joining space and the indent) is recognisable: the line contains a sentence end within
    its first 19 columns and overflows by at most indent+1.  Anything else gets the plain signature."""
    over = start + wm.line_len(line_words) - width
    col = 0
    merged = False
    for w in line_words[:-1]:
        col += len(w) + (1 if col else 0)
        if col < 20 and re.search(r"[a-z][.?!]$", w):
            merged = True
    return "bound:sem-merge" if (merged and 0 < over <= maxindent + 1) else "bound:sem-other"


class FillCore(Space):
    """greedy model vs wrap_paragraph_lines / wrap_paragraph / line_wrap_to_width on plain words."""

    prop = "C05"
    name = "fill-core"

    def __init__(self, maxw, maxn, maxcol):
        self.maxw, self.maxn, self.maxcol = maxw, maxn, maxcol
        self.floors = {"wrapped": 1000, "overlong-word": 100, "first-word-does-not-fit": 50}

    def cases(self):
        for width in [0, -1] + list(range(1, self.maxw + 1)):
            top = (width + 2) if width > 0 else 3
            for n in range(0, self.maxn + 1):
                for lens in itertools.product(range(1, top + 1), repeat=n):
                    for col0 in range(self.maxcol + 1):
                        for off in range(self.maxcol + 1):
                            yield (width, col0, off, lens)

    def smaller(self, case):
        width, col0, off, lens = case
        for i in range(len(lens)):
            yield (width, col0, off, lens[:i] + lens[i + 1:])
        for i in range(len(lens)):
            if lens[i] > 1:
                yield (width, col0, off, lens[:i] + (lens[i] - 1,) + lens[i + 1:])
        if col0:
            yield (width, col0 - 1, off, lens)
        if off:
            yield (width, col0, off - 1, lens)
        if width > 1:
            yield (width - 1, col0, off, lens)

    def describe(self, case):
        width, col0, off, lens = case
        return {"text": " ".join(plain_words(lens)), "width": width, "initial_column": col0, "subsequent_offset": off}

    def evaluate(self, case):
        width, col0, off, lens = case
        words = plain_words(lens)
        text = " ".join(words)
        trace = []
        model = wm.greedy(words, width, col0, off, markdown=False, trace=trace)
        mlines = [" ".join(l) for l in model]
        viol = []
        tags = []
        if len(model) >= 2:
            tags.append("wrapped")
        if width > 0 and any(n > width for n in lens):
            tags.append("overlong-word")
        if width > 0 and lens and col0 + lens[0] > width:
            tags.append("first-word-does-not-fit")
        ntr = 0
        # V1/V2: the core function with both splitters and both markdown flags
        for nm, kw in (("lines-simple", dict(splitter=simple_word_splitter)), ("lines-md", dict(is_markdown=True)),
                       ("lines-htmlmd", dict())):
            got = wrap_paragraph_lines(text, width, initial_column=col0, subsequent_offset=off, **kw)
            ntr += 1
            if got != mlines:
                viol.append(("model:" + nm, {"got": got, "model": mlines}))
            posts(viol, split_lines(got), words, width, col0, off)
        # V3: wrap_paragraph with indent strings (column given by the indent) and with initial_column
        init, sub = ">" * col0, " " * off
        for nm, fn in (("wrap_paragraph", lambda: wrap_paragraph(text, width, initial_indent=init, subsequent_indent=sub)),
                       ("to_width-md", lambda: line_wrap_to_width(width, is_markdown=True)(text, init, sub)),
                       ("to_width-plain", lambda: line_wrap_to_width(width, is_markdown=False)(text, init, sub))):
            res = fn()
            ntr += 1
            ls = strip_indents(res, init, sub, viol, nm)
            if ls is not None:
                if ls != mlines:
                    viol.append(("model:" + nm, {"got": res, "model": mlines}))
                posts(viol, split_lines(ls), words, width, col0, off)
        res = wrap_paragraph(text, width, initial_indent="", subsequent_indent=sub, initial_column=col0)
        ntr += 1
        ls = strip_indents(res, "", sub, viol, "wrap_paragraph-initial_column")
        if ls is not None and ls != mlines:
            viol.append(("model:wrap_paragraph-initial_column", {"got": res, "model": mlines}))
        # de-duplicate signatures (several variants share one root cause)
        seen = {}
        for s, d in viol:
            seen.setdefault(s, d)
        return Outcome(viol=list(seen.items()), tags=tags, obs=hash(tuple(mlines)), states=set(trace),
                       transitions=len(trace), traces=ntr)


MARKWORDS = ["aa", "-", "1.", "#", "b", ">", "+", "*", "2)", "##", "cccc", "10.",
             # appended later: runs that are escaped character by character, a rule, a fence with text
             "***", "____", "---", "~~~x"]


class Markers(Space):
    """Marker words: a protecting backslash may only appear at the start of a wrapped Markdown line,
    and its width counts."""

    prop = "C05"
    name = "markers"

    def __init__(self, maxn, maxw):
        self.maxn, self.maxw = maxn, maxw
        self.floors = {"marker-at-line-start": 200}

    def cases(self):
        for width in [0] + list(range(1, self.maxw + 1)):
            for n in range(1, self.maxn + 1):
                for ks in itertools.product(range(len(MARKWORDS)), repeat=n):
                    for col0, off in ((0, 0), (2, 2), (3, 0), (0, 3)):
                        yield (width, col0, off, ks)

    def smaller(self, case):
        width, col0, off, ks = case
        for i in range(len(ks)):
            yield (width, col0, off, ks[:i] + ks[i + 1:])
        for i in range(len(ks)):
            if ks[i] != 0:
                yield (width, col0, off, ks[:i] + (0,) + ks[i + 1:])
        if (col0, off) != (0, 0):
            yield (width, 0, 0, ks)
        if width > 1:
            yield (width - 1, col0, off, ks)

    def describe(self, case):
        width, col0, off, ks = case
        return {"text": " ".join(MARKWORDS[k] for k in ks), "width": width, "initial_column": col0, "subsequent_offset": off}

    def evaluate(self, case):
        width, col0, off, ks = case
        words = [MARKWORDS[k] for k in ks]
        text = " ".join(words)
        viol, tags, ntr = [], [], 0
        states = set()
        ntrans = 0
        for md in (True, False):
            trace = []
            model = wm.greedy(words, width, col0, off, markdown=md, trace=trace)
            states.update(trace)
            ntrans += len(trace)
            mlines = [" ".join(l) for l in model]
            if md and any(wm.is_marker(wm.unprotect(l[0])) for l in model[1:]):
                tags.append("marker-at-line-start")
            got = wrap_paragraph_lines(text, width, initial_column=col0, subsequent_offset=off, is_markdown=md)
            ntr += 1
            nm = "md" if md else "plain"
            if got != mlines:
                viol.append(("model:lines-" + nm, {"got": got, "model": mlines}))
            posts(viol, split_lines(got), words, width, col0, off)
            if not md and "\\" in "".join(got):
                viol.append(("backslash-in-plain", {"got": got}))
        seen = {}
        for s, d in viol:
            seen.setdefault(s, d)
        return Outcome(viol=list(seen.items()), tags=tags, obs=None, states=states, transitions=ntrans, traces=ntr)


ATOMS = ["aa", "`c d`", "[l k](u)", "{% t x %}", "<!-- c d -->", "<b x=1>", "b", "{{ v w }}", "{# n o #}", "[l m][r s]",
         "``x ` y``"]
_TAGKIND = {3: "%", 4: "c", 7: "v", 8: "#"}


class Atomic(Space):
    """Constructs with inner spaces are single words for the filler: lossless / bounded / maximal hold
    with the constructs as words."""

    prop = "C05"
    name = "atomic"

    def __init__(self, maxn, widths):
        self.maxn, self.widths = maxn, widths
        self.floors = {"atomic-wider-than-width": 200, "wrapped": 500}

    def cases(self):
        for width in self.widths:
            for n in range(1, self.maxn + 1):
                for ks in itertools.product(range(len(ATOMS)), repeat=n):
                    if any(_TAGKIND.get(a) and _TAGKIND.get(a) == _TAGKIND.get(b) for a, b in zip(ks, ks[1:])):
                        continue
                    for col0, off in ((0, 0), (2, 2)):
                        yield (width, col0, off, ks)

    def smaller(self, case):
        width, col0, off, ks = case
        for i in range(len(ks)):
            c = ks[:i] + ks[i + 1:]
            if not any(_TAGKIND.get(a) and _TAGKIND.get(a) == _TAGKIND.get(b) for a, b in zip(c, c[1:])):
                yield (width, col0, off, c)
        for i in range(len(ks)):
            if ks[i] != 0:
                yield (width, col0, off, ks[:i] + (0,) + ks[i + 1:])
        if (col0, off) != (0, 0):
            yield (width, 0, 0, ks)
        j = self.widths.index(width) if width in self.widths else 0
        if j > 0:
            yield (self.widths[j - 1], col0, off, ks)

    def describe(self, case):
        width, col0, off, ks = case
        return {"text": " ".join(ATOMS[k] for k in ks), "width": width, "initial_column": col0, "subsequent_offset": off}

    def evaluate(self, case):
        width, col0, off, ks = case
        words = [ATOMS[k] for k in ks]
        text = " ".join(words)
        trace = []
        model = wm.greedy(words, width, col0, off, markdown=True, trace=trace)
        mlines = [" ".join(l) for l in model]
        tags = []
        if len(model) >= 2:
            tags.append("wrapped")
        if width > 0 and any(len(w) > width and " " in w for w in words):
            tags.append("atomic-wider-than-width")
        viol = []
        got = wrap_paragraph_lines(text, width, initial_column=col0, subsequent_offset=off, is_markdown=True)
        if got != mlines:
            viol.append(("model:lines-md", {"got": got, "model": mlines}))
        res = line_wrap_to_width(width, is_markdown=True)(text, " " * col0, " " * off)
        ls = strip_indents(res, " " * col0, " " * off, viol, "to_width-md")
        if ls is not None and ls != mlines:
            viol.append(("model:to_width-md", {"got": res, "model": mlines}))
        # model-independent: re-tokenise the output with the known construct list
        joined = " ".join(got)
        if joined != text:
            viol.append(("lossless", {"got": got, "text": text}))
        else:
            k = 0
            lines = []
            ok = True
            for ln in got:
                cur = []
                rest = ln
                while rest:
                    if k < len(words) and rest.startswith(words[k]) and (len(rest) == len(words[k]) or rest[len(words[k])] == " "):
                        cur.append(words[k])
                        rest = rest[len(words[k]):].lstrip(" ")
                        k += 1
                    else:
                        ok = False
                        break
                lines.append(cur)
                if not ok:
                    break
            if not ok or k != len(words):
                viol.append(("construct-split", {"got": got, "words": words}))
            else:
                if not wm.post_bounded(lines, width, col0, off):
                    viol.append(("bound", {"lines": got, "width": width}))
                if not wm.post_maximal(lines, width, col0, off):
                    viol.append(("maximal", {"lines": got, "width": width}))
        seen = {}
        for s, d in viol:
            seen.setdefault(s, d)
        return Outcome(viol=list(seen.items()), tags=tags, obs=hash(tuple(mlines)), states=set(trace),
                       transitions=len(trace), traces=2)


FILLMODES = [Wrap.WRAP, Wrap.WRAP_FULL, Wrap.WRAP_INDENT, Wrap.HANGING_INDENT, Wrap.MARKDOWN_ITEM]


class FillText(Space):
    """fill_text in every wrapping mode x extra indent, and reformat_text(plaintext=True), for one and
    two paragraphs.  Effective width = width - len(subsequent indent) (see ASSUMPTIONS)."""

    prop = "C05"
    name = "fill-text"

    def __init__(self, maxw, maxn):
        self.maxw, self.maxn = maxw, maxn
        self.floors = {"wrapped": 500}

    def cases(self):
        for mode in range(len(FILLMODES) + 1):  # last index = reformat_text(plaintext=True)
            for width in [0, -2] + list(range(5, self.maxw + 1)):
                for extra in ((0, 1) if mode < len(FILLMODES) else (0,)):
                    for n in range(1, self.maxn + 1):
                        for lens in itertools.product((1, 2, 3, 5, self.maxw + 1), repeat=n):
                            for split in ([None] + list(range(1, n))):
                                for lay in ((0, 1, 2) if n > 1 else (0,)):
                                    yield (mode, width, extra, lens, split, lay)

    LAYOUTS = (" ", "  ", "\n")  # separator between the words of one paragraph in the INPUT

    def smaller(self, case):
        mode, width, extra, lens, split, lay = case
        if lay:
            yield (mode, width, extra, lens, split, 0)
        if split is not None:
            yield (mode, width, extra, lens, None, lay)
        if split is None:
            for i in range(len(lens)):
                if len(lens) > 1:
                    yield (mode, width, extra, lens[:i] + lens[i + 1:], None, lay)
            for i in range(len(lens)):
                if lens[i] > 1:
                    yield (mode, width, extra, lens[:i] + (1,) + lens[i + 1:], None, lay)
        if extra:
            yield (mode, width, 0, lens, split, lay)
        if width > 5:
            yield (mode, width - 1, extra, lens, split, lay)

    def _text(self, case):
        mode, width, extra, lens, split, lay = case
        words = plain_words(lens)
        paras = [words] if split is None else [words[:split], words[split:]]
        return paras, "\n\n".join(self.LAYOUTS[lay].join(p) for p in paras)

    def describe(self, case):
        mode, width, extra, lens, split, lay = case
        return {"fn": "reformat_text(plaintext=True)" if mode == len(FILLMODES) else f"fill_text({FILLMODES[mode]})",
                "text": self._text(case)[1], "width": width, "extra_indent": " " * extra}

    def evaluate(self, case):
        mode, width, extra, lens, split, lay = case
        paras, text = self._text(case)
        viol, tags = [], []
        if mode == len(FILLMODES):
            res = reformat_text(text, width=width, plaintext=True)
            init = sub = ""
            first_only = False
            eff = width
        else:
            m = FILLMODES[mode]
            ex = " " * extra
            res = fill_text(text, m, width=width, extra_indent=ex)
            init, sub = ex + m.initial_indent, ex + m.subsequent_indent
            first_only = m.initial_indent_first_para_only
            eff = width - len(sub)
        got_paras = res.split("\n\n")
        states, ntrans = set(), 0
        if len(got_paras) != len(paras):
            viol.append(("paragraphs", {"got": res}))
        else:
            for pi, (gp, words) in enumerate(zip(got_paras, paras)):
                pinit = sub if (first_only and pi > 0) else init
                trace = []
                model = wm.greedy(words, eff, len(pinit), len(sub), trace=trace)
                states.update(trace)
                ntrans += len(trace)
                if len(model) >= 2:
                    tags.append("wrapped")
                ls = strip_indents(gp, pinit, sub, viol, "fill")
                if ls is None:
                    continue
                if eff <= 0:
                    # no wrapping: runs of spaces inside the line may be kept (Wrap.WRAP keeps whitespace); compare words
                    got_words = [ln.split() for ln in ls]
                    if got_words != model:
                        viol.append(("model:fill", {"got": gp, "model": model, "eff_width": eff}))
                    posts(viol, got_words, words, eff, len(pinit), len(sub))
                    continue
                if ls != [" ".join(l) for l in model]:
                    viol.append(("model:fill", {"got": gp, "model": model, "eff_width": eff}))
                posts(viol, split_lines(ls), words, eff, len(pinit), len(sub))
        seen = {}
        for s, d in viol:
            seen.setdefault(s, d)
        return Outcome(viol=list(seen.items()), tags=sorted(set(tags)), obs=hash(res), states=states, transitions=ntrans,
                       traces=len(paras))


# sentence shapes: tuples of word lengths; the last word of each shape ends a sentence (if >= 3 long)
SENT_SHAPES = [(3,), (9, 8), (18,), (19,), (9, 4, 4), (25,), (9, 14), (1, 1), (12, 12, 5), (31,)]


def sentence_words(sents):
    words = []
    for si, shape in enumerate(sents):
        for wi, n in enumerate(shape):
            ch = "abcdefghij"[(si * 3 + wi) % 10]
            if wi == len(shape) - 1 and n >= 3:
                words.append(ch * (n - 1) + ".")
            else:
                words.append(ch * n)
    return words


class Sentence(Space):
    """line_wrap_by_sentence: lossless, indented, width-bounded (maximality is not claimed there).
    A case is (width, first indent, continuation indent, sentences as tuples of word lengths); the
    enumerated set uses SENT_SHAPES, the `smaller` relation shrinks single words, widths and indents."""

    prop = "C05"
    name = "sentence"

    def __init__(self, maxs, widths, indents):
        self.maxs, self.widths, self.indents = maxs, widths, indents
        self.floors = {"multi-line": 200, "short-line-merge-zone": 100}

    def cases(self):
        for width in self.widths:
            for init, sub in self.indents:
                for n in range(1, self.maxs + 1):
                    for ids in itertools.product(range(len(SENT_SHAPES)), repeat=n):
                        yield (width, init, sub, tuple(SENT_SHAPES[i] for i in ids))

    def smaller(self, case):
        width, init, sub, sents = case
        for i in range(len(sents)):
            if len(sents) > 1:
                yield (width, init, sub, sents[:i] + sents[i + 1:])
        for i, sh in enumerate(sents):
            for j in range(len(sh)):
                if len(sh) > 1:
                    yield (width, init, sub, sents[:i] + (sh[:j] + sh[j + 1:],) + sents[i + 1:])
        for i, sh in enumerate(sents):
            room = sum(sh) + len(sh)
            if len(sents) > 1 and width - room >= 1:  # drop a sentence together with the room it took
                yield (width - room, init, sub, sents[:i] + sents[i + 1:])
        for i, sh in enumerate(sents):
            for j in range(len(sh)):
                if len(sh) > 1 and width - sh[j] - 1 >= 1:  # drop a word together with the room it took
                    yield (width - sh[j] - 1, init, sub, sents[:i] + (sh[:j] + sh[j + 1:],) + sents[i + 1:])
        dec = []
        for i, sh in enumerate(sents):
            for j in range(len(sh)):
                if sh[j] > 1:
                    dec.append((width, init, sub, sents[:i] + (sh[:j] + (sh[j] - 1,) + sh[j + 1:],) + sents[i + 1:]))
        yield from dec
        if init and sub:
            yield (width, init - 1, sub - 1, sents)
        if init:
            yield (width, init - 1, sub, sents)
        if sub:
            yield (width, init, sub - 1, sents)
        if width > 1:
            yield (width - 1, init, sub, sents)
            for d in dec:
                yield (width - 1,) + d[1:]
            if init and sub:
                yield (width - 1, init - 1, sub - 1, sents)

    def describe(self, case):
        width, init, sub, sents = case
        return {"text": " ".join(sentence_words(sents)), "width": width, "initial_indent": " " * init, "subsequent_indent": " " * sub}

    def evaluate(self, case):
        width, init, sub, sents = case
        words = sentence_words(sents)
        text = " ".join(words)
        viol, tags = [], []
        for md in (True, False):
            res = line_wrap_by_sentence(width=width, is_markdown=md)(text, " " * init, " " * sub)
            ls = strip_indents(res, " " * init, " " * sub, viol, "sentence")
            if ls is None:
                continue
            lines = split_lines(ls)
            if len(lines) >= 2:
                tags.append("multi-line")
            if any(len(l) < 20 for l in ls[:-1]) or any(len(l) > 20 for l in ls):
                tags.append("short-line-merge-zone")
            if not wm.post_lossless(lines, words):
                viol.append(("lossless:sentence", {"got": res, "words": words}))
            elif width > 0:
                for i, ln in enumerate(lines):
                    start = init if i == 0 else sub
                    if start + wm.line_len(ln) > width and len(ln) > 1:
                        viol.append((sem_bound_sig(ln, start, width, max(init, sub)), {"got": res, "width": width, "line": ls[i]}))
                        break
            elif len(lines) > 1:
                viol.append(("width0:sentence", {"got": res}))
        seen = {}
        for s, d in viol:
            seen.setdefault(s, d)
        return Outcome(viol=list(seen.items()), tags=sorted(set(tags)), obs=hash(res), traces=2)


PARA_TOKENS = ["aa", "bbbb", "c", "-", "1.", "`x y`", "Dd.", "eeeeeeeeeeee"]


class DocTriples(Space):
    """Per-paragraph (text, indents, result) triples recorded by a recording line_wrapper passed to
    fill_markdown, for paragraphs inside every container nesting up to the depth bound."""

    prop = "C05"
    name = "doc-triples"

    def __init__(self, depth, maxn, widths):
        self.ctx = docspace.contexts(depth, ("ul", "ol10", "bq", "fnlong"), (None, "p"))
        self.maxn, self.widths = maxn, widths
        self.floors = {"wrapped": 500, "first-indent-longer": 50, "hard-break": 50}

    def cases(self):
        for ci in range(len(self.ctx)):
            for n in range(1, self.maxn + 1):
                for ks in itertools.product(range(len(PARA_TOKENS)), repeat=n):
                    for seps in itertools.product(("sp", "nl", "hb"), repeat=n - 1):
                        if seps.count("hb") > 1 or not self._ok(ks, seps):
                            continue
                        for width in self.widths:
                            for sem in (False, True):
                                yield (ci, ks, seps, width, sem)

    @staticmethod
    def _ok(ks, seps):
        # a marker token directly after a newline would be block syntax in the INPUT (a list), not a word
        return not any(s != "sp" and PARA_TOKENS[k] in ("-", "1.") for k, s in zip(ks[1:], seps))

    def smaller(self, case):
        for c in self._smaller(case):
            if self._ok(c[1], c[2]) and c[3] >= 0:
                yield c

    def _smaller(self, case):
        ci, ks, seps, width, sem = case
        layers, b, a = self.ctx[ci]
        simplest = (("ul",), None, None)
        if layers and self.ctx[ci] != simplest and simplest in self.ctx:
            yield (self.ctx.index(simplest), ks, seps, width, sem)
            for ind in docspace.indent_of(layers):  # ... and together with the room the deeper indent took
                if 1 <= width - (len(ind) - 2) < width:
                    yield (self.ctx.index(simplest), ks, seps, width - (len(ind) - 2), sem)
        for cj, (l2, b2, a2) in enumerate(self.ctx):
            if (len(l2) == len(layers) - 1 and l2 == layers[1:] and (b2, a2) == (b, a)) or \
               (l2 == layers and (b, a) != (None, None) and (b2, a2) == (None, None)):
                yield (cj, ks, seps, width, sem)
        for i in range(len(ks)):
            if len(ks) > 1:
                s2 = seps[:i] + seps[i + 1:] if i < len(seps) else seps[:-1]
                yield (ci, ks[:i] + ks[i + 1:], s2, width, sem)
                room = len(PARA_TOKENS[ks[i]]) + 1
                if width - room >= 1:  # drop a token together with the room it took
                    yield (ci, ks[:i] + ks[i + 1:], s2, width - room, sem)
        for i in range(len(ks)):
            for rep in (2, 0):  # 'c' (one character), then 'aa'
                if ks[i] != rep and len(PARA_TOKENS[rep]) <= len(PARA_TOKENS[ks[i]]):
                    yield (ci, ks[:i] + (rep,) + ks[i + 1:], seps, width, sem)
                    room = len(PARA_TOKENS[ks[i]]) - len(PARA_TOKENS[rep])
                    if room and width - room >= 1:
                        yield (ci, ks[:i] + (rep,) + ks[i + 1:], seps, width - room, sem)
        for i in range(len(seps)):
            if seps[i] != "sp":
                yield (ci, ks, seps[:i] + ("sp",) + seps[i + 1:], width, sem)
        if sem:
            yield (ci, ks, seps, width, False)
        if width > 1:
            yield (ci, ks, seps, width - 1, sem)

    def _text(self, case):
        ci, ks, seps, width, sem = case
        layers, b, a = self.ctx[ci]
        toks = [PARA_TOKENS[k] for k in ks]
        # a marker token first in the paragraph would be block syntax in the INPUT: prefix a plain word
        para = "zz " + docspace.join_tokens(toks, seps)
        plines = para.split("\n")
        return docspace.in_context(plines, layers, b, a)

    def describe(self, case):
        return {"text": self._text(case), "width": case[3], "semantic": case[4]}

    def evaluate(self, case):
        ci, ks, seps, width, sem = case
        text = self._text(case)
        real = (line_wrap_by_sentence if sem else line_wrap_to_width)(width=width, is_markdown=True)
        log = []

        def rec(t, i, s):
            r = real(t, i, s)
            log.append((t, i, s, r))
            return r

        out = fill_markdown(text, width=width, semantic=sem, line_wrapper=rec)
        viol, tags = [], []
        for t, init, sub, res in log:
            if res not in out:
                viol.append(("result-not-in-output", {"res": res}))
            if len(init) > len(sub):
                tags.append("first-indent-longer")
            segs_in = re.split(r"\\\n|  \n", t)
            segs_out = re.split(r"\\\n", res)
            if len(segs_in) > 1:
                tags.append("hard-break")
            if len(segs_in) != len(segs_out):
                viol.append(("segments", {"text": t, "res": res}))
                continue
            for si, (a, b) in enumerate(zip(segs_in, segs_out)):
                words = a.split()
                i0 = init if si == 0 else sub
                ls = strip_indents(b, i0, sub, viol, "doc")
                if ls is None:
                    continue
                if not words:
                    continue
                # tokenise with the one multi-word construct of the alphabet kept whole
                lines = [re.findall(r"`x y`|\S+", ln) for ln in ls]
                wds = re.findall(r"`x y`|\S+", " ".join(words))
                if len(lines) >= 2:
                    tags.append("wrapped")
                if not wm.post_lossless(lines, wds):
                    viol.append(("lossless:doc", {"text": t, "res": res}))
                    continue
                if width <= 0:
                    if len(lines) != 1:
                        viol.append(("width0:doc", {"text": t, "res": res}))
                    continue
                if not wm.post_bounded(lines, width, len(i0), len(sub)):
                    sig = "bound:doc"
                    if sem:
                        for li, ln in enumerate(lines):
                            st = len(i0) if li == 0 else len(sub)
                            if st + wm.line_len(ln) > width and len(ln) > 1:
                                sig = sem_bound_sig(ln, st, width, max(len(init), len(sub)))
                                break
                    viol.append((sig, {"text": t, "init": init, "sub": sub, "res": res, "width": width}))
                if not sem and not wm.post_maximal(lines, width, len(i0), len(sub)):
                    viol.append(("maximal:doc", {"text": t, "init": init, "sub": sub, "res": res, "width": width}))
        seen = {}
        for s, d in viol:
            seen.setdefault(s, d)
        return Outcome(viol=list(seen.items()), tags=sorted(set(tags)), obs=hash(out), traces=len(log))


SEG_TOKENS = ["aa", "Bb.", "{% t %}", "{% /t %}", "<!-- c -->", "c"]
_SEG_TAG_END = re.compile(r"(%\}|#\}|\}\}|-->)$")
_SEG_TAG_START = re.compile(r"^(\{%|\{#|\{\{|<!--)")


def seg_model(text):
    """Reference segmentation of a paragraph for width <= 0: hard breaks, and newlines next to a tag, are kept; every
    other run of whitespace is one space.  -> list of segments (each a list of words)."""
    segs = []
    for hb in re.split(r"\\\n|  \n", text):
        lines = hb.split("\n")
        cur = lines[0].split()
        for prev, ln in zip(lines, lines[1:]):
            if _SEG_TAG_END.search(prev.rstrip()) or _SEG_TAG_START.search(ln.lstrip()):
                segs.append(cur)
                cur = ln.split()
            else:
                cur += ln.split()
        segs.append(cur)
    return segs


class SegmentsWidth0(Space):
    """width <= 0: exactly one line per paragraph, hard-break segment or tag-delimited segment (both wrap modes, Markdown)."""

    prop = "C05"
    name = "segments-width0"

    def __init__(self, maxn):
        self.maxn = maxn
        self.floors = {"tag-boundary": 200, "hard-break": 200}

    def cases(self):
        for n in range(1, self.maxn + 1):
            for ks in itertools.product(range(len(SEG_TOKENS)), repeat=n):
                for seps in itertools.product(("sp", "nl", "hb"), repeat=n - 1):
                    if seps.count("hb") > 1:
                        continue
                    for width in (0, -1):
                        for sem in (False, True):
                            yield (ks, seps, width, sem)

    def _text(self, case):
        ks, seps, width, sem = case
        return "zz " + docspace.join_tokens([SEG_TOKENS[k] for k in ks], seps) + "\n"

    def describe(self, case):
        return {"text": self._text(case), "width": case[2], "semantic": case[3]}

    def smaller(self, case):
        ks, seps, width, sem = case
        for i in range(len(ks)):
            if len(ks) > 1:
                yield (ks[:i] + ks[i + 1:], seps[:i] + seps[i + 1:] if i < len(seps) else seps[:-1], width, sem)
        for i in range(len(ks)):
            if ks[i]:
                yield (ks[:i] + (0,) + ks[i + 1:], seps, width, sem)
        for i in range(len(seps)):
            if seps[i] != "sp":
                yield (ks, seps[:i] + ("sp",) + seps[i + 1:], width, sem)
        if sem:
            yield (ks, seps, width, False)
        if width:
            yield (ks, seps, 0, sem)

    def evaluate(self, case):
        ks, seps, width, sem = case
        text = self._text(case)
        segs = seg_model(text.rstrip("\n"))
        out = reformat_text(text, width=width, semantic=sem, cleanups=False)
        lines = out.rstrip("\n").split("\n")
        tags = []
        if len(segs) > 1:
            tags.append("hard-break" if "hb" in seps else "tag-boundary")
        viol = []
        got = [re.sub(r"\\$", "", ln).split() for ln in lines if ln.strip()]
        want = [s_ for s_ in segs if s_]
        flat = lambda xs: [w.lstrip("\\") for x in xs for w in x]  # noqa: E731
        if flat(got) != flat(want):
            viol.append(("width0:words", {"input": text, "output": out}))
        elif len(got) != len(want):
            viol.append(("width0:segments", {"input": text, "output": out, "expected_lines": [" ".join(x) for x in want]}))
        return Outcome(viol=viol, tags=tags, obs=hash(out))


class SegmentsWidth(SegmentsWidth0):
    """width > 0 on the same paragraphs: the words are those of the reference segmentation, there are at least as many lines as
    segments, and no line is longer than the width unless it is a single atomic token (tags kept whole)."""

    name = "segments-width"
    # (an opening tag followed by its closing tag, with or without a space, is one atomic construct by design: "paired tags")
    _ATOM = re.compile(r"\{%(?!\s*/).*?%\}\s*\{%\s*/.*?%\}|\{%.*?%\}|\{\{.*?\}\}|\{#.*?#\}|<!--.*?-->|\S+")

    def __init__(self, maxn, widths):
        super().__init__(maxn)
        self.widths = widths
        self.floors = {"tag-boundary": 200, "hard-break": 200, "wrapped": 500}

    def cases(self):
        for n in range(1, self.maxn + 1):
            for ks in itertools.product(range(len(SEG_TOKENS)), repeat=n):
                for seps in itertools.product(("sp", "nl", "hb"), repeat=n - 1):
                    if seps.count("hb") > 1:
                        continue
                    for width in self.widths:
                        for sem in (False, True):
                            yield (ks, seps, width, sem)

    def smaller(self, case):
        ks, seps, width, sem = case
        for c in super().smaller((ks, seps, 0, sem)):
            if c[2] == 0 and (c[0], c[1], c[3]) != (ks, seps, sem):
                yield (c[0], c[1], width, c[3])
        if width > 1:
            yield (ks, seps, width - 1, sem)

    def evaluate(self, case):
        ks, seps, width, sem = case
        text = self._text(case)
        segs = [s_ for s_ in seg_model(text.rstrip("\n")) if s_]
        out = reformat_text(text, width=width, semantic=sem, cleanups=False)
        lines = [ln for ln in out.rstrip("\n").split("\n") if ln.strip()]
        tags = []
        if len(segs) > 1:
            tags.append("hard-break" if "hb" in seps else "tag-boundary")
        if len(lines) > len(segs):
            tags.append("wrapped")
        viol = []
        got = [w.lstrip("\\") for ln in lines for w in re.sub(r"\\$", "", ln).split()]
        want = [w.lstrip("\\") for s_ in segs for w in s_]
        if got != want:
            viol.append(("width:words", {"input": text, "output": out}))
        elif len(lines) < len(segs):
            viol.append(("width:segments-joined", {"input": text, "output": out, "segments": [" ".join(x) for x in segs]}))
        else:
            for ln in lines:
                body = re.sub(r"\\$", "", ln)          # the hard-break backslash is a marker, not a word
                over = len(body) - width
                if over > 0 and len(self._ATOM.findall(body)) > 1:
                    if sem and over <= 1:
                        continue                       # F1 / K-sem: the short-line merge ignores the joining space (listed under C05 sentence)
                    viol.append(("bound:segment" + (":sem" if sem else ""), {"input": text, "output": out, "line": ln, "width": width}))
                    break
        return Outcome(viol=viol, tags=tags, obs=hash(out))


def spaces(tier):
    if tier == "quick":
        return [FillCore(7, 4, 4), Markers(3, 7), Atomic(3, [0, 1, 5, 8, 9, 10, 12, 14, 20]), FillText(10, 3),
                Sentence(3, [22, 24, 30], [(0, 0), (2, 2), (6, 4)]), DocTriples(1, 3, [0, 1, 6, 9, 12]), SegmentsWidth0(4), SegmentsWidth(4, [1, 8, 12, 17])]
    return [FillCore(8, 5, 4), Markers(4, 7), Atomic(3, [0, 1, 5, 8, 9, 10, 12, 14, 17, 20, 24, 30]), FillText(11, 4),
            Sentence(3, [22, 24, 30, 40], [(0, 0), (2, 2), (6, 4)]), DocTriples(2, 3, [0, 1, 6, 9, 12, 20]), SegmentsWidth0(5), SegmentsWidth(5, [1, 5, 8, 10, 12, 14, 17, 22])]

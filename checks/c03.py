"""C03 — the output is a canonical form independent of the input's line layout.

R1 (re-layout): for a paragraph given as tokens joined by single spaces (the base layout) and EVERY
other assignment of separators {2 spaces, newline, newline + continuation indent} to the gaps that
are not adjacent to a template tag / HTML comment: if the re-laid-out text still reads as the same
document (Reader A), its formatted output must be byte-identical to that of the base layout.
R2 (history): formatting first with any other (width, mode) and then with the target options must
give the same bytes as formatting directly — unless the first pass put a newline next to a tag
(the one layout that is deliberately significant).
"""
from __future__ import annotations

import itertools
import re

from vf import core, docspace, readers
from vf.explorer import Outcome, Space
from vf.paraspace import ParaSpace

core.bind()
from flowmark import reformat_text  # noqa: E402

LEVEL = "exploration"
RULE = ("complete enumeration of token sequences x separator assignments x contexts x widths x modes; R1 compares every "
        "meaning-preserving re-layout with the single-space layout, R2 runs every ordered pair of (width, mode) option sets on the "
        "single-space layout; a case is non-trivial when the re-layout differs textually from the base and passes the "
        "meaning-preservation precondition (R1) or when pass 1 changed the text (R2)")
ASSUMPTIONS = ["a re-layout is admitted only if Reader A reads it as the same document as the base layout (e.g. moving a newline in "
               "front of '-' is not meaning-preserving and is skipped and counted)",
               "gaps adjacent to a template tag or HTML comment only vary between one and two spaces (the declared exception)",
               "cleanups, smartquotes, ellipses off and all on; list_spacing=preserve"]

TOK = ["aa", "Bb.", "a", "cccccccccc", "Dd?", "-", "1.", "#", ">", "=", "\\-", "`c d`", "[l k](u)", "[l][r]", "<b>", "*e", "f*", "**s**",
       "it's", '"q', 'q"', "...", "{% t %}", "{% /t %}", "<!-- c -->", "{{ v }}",
       # appended later (indices of earlier tokens are referenced by known/C03.txt and must stay stable)
       '"q r"']
TOK_REPS = [TOK.index(t) for t in ("aa", "Bb.", "-", "#", "`c d`", "[l k](u)", "*e", "f*", "{% t %}", '"q', 'q"')]
WIDTHS = (0, 1, 4, 8, 20, 88)
OPTS = [(w, m) for w in WIDTHS for m in (False, True)]

_TAG = re.compile(r"^(\{%|\{#|\{\{|<!--)|(%\}|#\}|\}\}|-->)$")


def is_tag(tok):
    return bool(_TAG.search(tok))


def valid(toks, seps):
    # newline-type separators are not offered next to a tag (that layout is deliberately significant)
    toks = ["zz"] + list(toks)
    return not any(s in ("nl", "nli") and (is_tag(a) or is_tag(b)) for a, b, s in zip(toks, toks[1:], ("sp",) + tuple(seps)))


def fmt(text, width, sem, typo):
    return reformat_text(text, width=width, semantic=sem, cleanups=typo, smartquotes=typo, ellipses=typo)


def tag_newline_profile(text):
    """For every tag occurrence: (newline directly before, newline directly after)."""
    prof = []
    for m in re.finditer(r"\{%.*?%\}|\{#.*?#\}|\{\{.*?\}\}|<!--.*?-->", text, re.S):
        before = text[:m.start()].rstrip(" \t>")
        after = text[m.end():].lstrip(" \t")
        prof.append((before.endswith("\n") or before == "", after.startswith("\n") or after == ""))
    return tuple(prof)


def classify(a, b):
    d = readers.first_diff(readers.norm_a(a), readers.norm_a(b))
    if d is None:
        return "layout"
    return "struct" if "→" in d else ("text" if d == "T.s" else "attr:" + d)


def oracle(space, case, text, width, sem):
    ci, ks, seps, _, _ = case
    base = space.text((ci, ks, ("sp",) * len(seps), width, sem))
    viol, tags = [], []
    if text != base:
        # ---- R1
        if readers.norm_a(text) != readers.norm_a(base):
            return Outcome(tags=["relayout-rejected-by-precondition"])
        tags.append("relayout-admitted")
        for typo in (False, True):
            a, b = fmt(base, width, sem, typo), fmt(text, width, sem, typo)
            if a != b:
                viol.append(("R1:" + classify(a, b), {"base": base, "relayout": text, "width": width, "semantic": sem, "typography": typo,
                                                      "out_base": a, "out_relayout": b}))
                break
    else:
        # ---- R2 on the base layout
        direct = fmt(base, width, sem, False)
        p0 = tag_newline_profile(base)
        for (w1, m1) in OPTS:
            if (w1, m1) == (width, sem):
                continue
            first = fmt(base, w1, m1, False)
            if tag_newline_profile(first) != p0:
                tags.append("history-skipped-tag-newline")
                continue
            if first != base:
                tags.append("history-pass1-changed")
            second = fmt(first, width, sem, False)
            if second != direct:
                viol.append(("R2:" + classify(direct, second), {"input": base, "first_options": {"width": w1, "semantic": m1},
                                                                "target_options": {"width": width, "semantic": sem},
                                                                "after_first": first, "two_passes": second, "direct": direct}))
                break
    seen = {}
    for s, d in viol:
        seen.setdefault(s, d)
    return Outcome(viol=list(seen.items()), tags=sorted(set(tags)))


class Lines(Space):
    """Headings and table cells: runs of spaces inside a single-line construct (no newline possible)."""

    prop = "C03"
    name = "single-line"
    FORMS = [("# ", ""), ("| ", " |\n|---|"), ("- # ", "")]

    def __init__(self, maxn):
        self.maxn = maxn
        self.floors = {"relayout-admitted": 50}

    def cases(self):
        words = ["aa", "Bb.", "`c d`", "**s**", "{% t %}"]
        for f in range(len(self.FORMS)):
            for n in range(2, self.maxn + 1):
                for ks in itertools.product(range(len(words)), repeat=n):
                    for seps in itertools.product((1, 2, 3), repeat=n - 1):
                        if all(s == 1 for s in seps):
                            continue
                        for w in (0, 8, 88):
                            for sem in (False, True):
                                yield (f, ks, seps, w, sem)

    WORDS = ["aa", "Bb.", "`c d`", "**s**", "{% t %}"]

    def text(self, case, base=False):
        f, ks, seps, w, sem = case
        out = self.WORDS[ks[0]]
        for k, s in zip(ks[1:], seps):
            out += " " * (1 if base else s) + self.WORDS[k]
        pre, post = self.FORMS[f]
        return pre + out + post + "\n"

    def describe(self, case):
        return {"text": self.text(case), "width": case[3], "semantic": case[4]}

    def smaller(self, case):
        f, ks, seps, w, sem = case
        if f:
            yield (0, ks, seps, w, sem)
        for i in range(len(ks)):
            if len(ks) > 2:
                s2 = seps[:i] + seps[i + 1:] if i < len(seps) else seps[:-1]
                if any(s != 1 for s in s2):
                    yield (f, ks[:i] + ks[i + 1:], s2, w, sem)
        for i in range(len(ks)):
            if ks[i]:
                yield (f, ks[:i] + (0,) + ks[i + 1:], seps, w, sem)
        for i in range(len(seps)):
            if seps[i] > 1 and sum(1 for s in seps if s > 1) > 1:
                yield (f, ks, seps[:i] + (1,) + seps[i + 1:], w, sem)
            if seps[i] == 3:
                yield (f, ks, seps[:i] + (2,) + seps[i + 1:], w, sem)
        if sem:
            yield (f, ks, seps, w, False)
        if w != 88:
            yield (f, ks, seps, 88, sem)

    def evaluate(self, case):
        f, ks, seps, w, sem = case
        t, base = self.text(case), self.text(case, base=True)
        if readers.norm_a(t) != readers.norm_a(base):
            return Outcome(tags=["relayout-rejected-by-precondition"])
        a, b = fmt(base, w, sem, False), fmt(t, w, sem, False)
        viol = []
        if a != b:
            viol.append(("R1:" + classify(a, b), {"base": base, "relayout": t, "out_base": a, "out_relayout": b, "width": w, "semantic": sem}))
        return Outcome(viol=viol, tags=["relayout-admitted"])


class InnerGaps(Space):
    """Constructs that hold whitespace of their own (link text, reference labels, emphasis, code spans): the gap INSIDE the construct is
    re-laid-out (two spaces, a soft break, a soft break plus continuation indent); the output must be that of the one-space layout."""

    prop = "C03"
    name = "inner-gaps"
    FORMS = ["[contributor{G}guide]", "[contributor{G}guide][]", "[the{G}text][contributor guide]", "![contributor{G}guide]", "[the text][contributor{G}guide]",
             "[link{G}text](http://u.v/w)", "![alt{G}text](u)", "*emph{G}text*", "**strong{G}text**", "`code{G}span`", "~~del{G}text~~", "[^note] and{G}more"]
    GAPS = [" ", "  ", "\n", "\n  "]
    CTX = [("", ""), ("- ", "  "), ("> ", "> "), ("1. ", "   ")]
    TAIL = "\n\n[contributor guide]: http://u.v/guide\n\n[^note]: a note\n"

    def __init__(self, tier):
        self.widths = (88, 12) if tier == "quick" else (0, 1, 12, 20, 88)
        self.floors = {"relayout-admitted": 100}

    def cases(self):
        for f in range(len(self.FORMS)):
            for g in range(1, len(self.GAPS)):
                for c in range(len(self.CTX)):
                    for w in self.widths:
                        for sem in (False, True):
                            yield (f, g, c, w, sem)

    def text(self, case, base=False):
        f, g, c, w, sem = case
        first, cont = self.CTX[c]
        para = "zz yy " + self.FORMS[f].replace("{G}", " " if base else self.GAPS[g]) + " ww end."
        lines = para.split("\n")
        return first + lines[0] + "".join("\n" + cont + ln for ln in lines[1:]) + self.TAIL

    def describe(self, case):
        return {"text": self.text(case), "width": case[3], "semantic": case[4]}

    def smaller(self, case):
        f, g, c, w, sem = case
        if c:
            yield (f, g, 0, w, sem)
        if sem:
            yield (f, g, c, w, False)
        if w != 88:
            yield (f, g, c, 88, sem)

    def evaluate(self, case):
        f, g, c, w, sem = case
        t, base = self.text(case), self.text(case, base=True)
        if readers.norm_a(t) != readers.norm_a(base):
            return Outcome(tags=["relayout-rejected-by-precondition"])
        viol = []
        for typo in (False, True):
            a, b = fmt(base, w, sem, typo), fmt(t, w, sem, typo)
            if a != b:
                viol.append(("R1:" + classify(a, b), {"base": base, "relayout": t, "out_base": a, "out_relayout": b, "width": w, "semantic": sem, "typography": typo}))
                break
        return Outcome(viol=viol, tags=["relayout-admitted"])


def spaces(tier):
    q = tier == "quick"
    ctx = docspace.contexts(1, ("ul", "ol10", "bq", "fnlong"), (None,))
    para = ParaSpace("C03", "para", TOK, 2 if q else 3, oracle, ctx, sepnames=("sp", "sp2", "nl", "nli"), widths=WIDTHS,
                     full_upto=2, reps=TOK_REPS, lead="zz ", valid=valid,
                     floors={"relayout-admitted": 1000, "history-pass1-changed": 500})
    para.hazard_rep = TOK.index("-")
    tag = TOK.index("{% t %}")
    para.class_rep = {TOK.index(t): tag for t in ("{% /t %}", "<!-- c -->", "{{ v }}")}
    return [para, Lines(2 if q else 3), InnerGaps(tier)]

"""C06 — template tags and other atomic constructs are never split or displaced.

(i)  every atomic construct of the input occurs intact (modulo inner whitespace runs) on ONE output line;
(ii) gap profile: the tokens come out in the same order and a gap carries whitespace in the output iff it did
     in the input (adjacent stays adjacent, separated stays separated);
(iii) a tag/comment alone on an unindented line stays alone on an unindented line;
(iv) a list or table between tag-only lines is still a list / table and is separated from both tag lines by a
     blank line.
"""
from __future__ import annotations

import itertools
import re

from vf import core, docspace, readers
from vf.explorer import Outcome, Space
from vf.paraspace import ParaSpace

core.bind()
from flowmark import reformat_text  # noqa: E402

LEVEL = "exploration"
RULE = ("complete enumeration of paragraphs over template tags / comments / inline HTML / code spans / links / words with every "
        "separator in {adjacent, space, newline} x contexts x every width 1..fit and 0 x both modes, and of tag-delimited blocks "
        "(prose | list | table | mixed, with and without blank lines, indented closers); a case is non-trivial when it contains at "
        "least one atomic construct wider than the width or at least one adjacency")
ASSUMPTIONS = ["tokens are located in the output by literal search modulo inner whitespace; a backslash protecting a line-leading marker is ignored",
               "a tag written with an inner newline may keep it (multi-line tags are preserved by design); only tags written on one line must stay on one line"]

TOK = ["aa", "Bb.", "a", "{% t %}", "{% /t %}", '{% t a="x y" %}', "{{ v }}", "{# c #}", "<!-- c -->", "<!-- /c -->", "{% t\nb %}",
       "`c d`", "[l k](u)", "<b>", "**s**", '<a href="x y">',
       # appended later (indices above are referenced by known/C06.txt)
       "`` `x y` ``", "``x ` y``", "[l k][r s]", '![i j](u "t v")',
       # appended later: a sentence end INSIDE the construct (semantic mode must not take it for a place to break)
       '{% t a="Xx yyyy. Zz" %}', "`code dddd eeee. Ff`", "[link kkkk mmmm. Nn](u)", "<!-- c dddd eeee. Ff -->", '<a title="Xxxx yyyy. Zz">',
       # appended later: constructs whose last character before the closing delimiter is a backslash or a delimiter look-alike
       "`C:\\a b\\`", "[l k\\](u)", "[the [1] x](u)", '{% t a="b\\" %}',
       "[l](<../u v/w.md>)", '[l](http://u.v/w_(x) "t u")']
REPS = [TOK.index(t) for t in ("aa", "Bb.", "{% t %}", "{% /t %}", "<!-- c -->", "`c d`", "[l k](u)", "{{ v }}")]
ATOMIC = {i for i, t in enumerate(TOK) if i >= 3}
_TAGS = {i for i, t in enumerate(TOK) if re.match(r"^(\{%|\{#|\{\{|<!--)", t)}


def tok_re(tok):
    parts = [re.escape(p) for p in tok.split()]
    return r"\s+".join(parts)


def valid(toks, seps):
    # adjacency is only meaningful next to at least one atomic construct (two glued words are one word)
    toks = ["zz"] + list(toks)
    for a, b, s in zip(toks, toks[1:], ("sp",) + tuple(seps)):
        if s == "adj" and not (a in ATOMIC_STR or b in ATOMIC_STR):
            return False
        if s == "adj" and a.endswith("`") and b.startswith("`"):
            return False  # the two backtick runs would merge into one longer run: these are no longer the two code spans
        # a multi-line tag token followed/preceded by nothing special is fine
    return True


TOK_RUNS = ["aa", "{% a %}", "{% b %}", "{{ v }}", "<!-- c -->"]   # alphabet of the tag-runs space (several same-kind boundaries)
ATOMIC_STR = {TOK[i] for i in ATOMIC} | set(TOK_RUNS[1:])


def oracle(space, case, text, width, sem):
    ci, ks, seps, _, _ = case
    layers = space.ctxs[ci][0]
    first, cont = docspace.indent_of(layers)
    out = reformat_text(text, width=width, semantic=sem, cleanups=False)
    tags = []
    lines = out.rstrip("\n").split("\n")
    stripped = []
    for i, ln in enumerate(lines):
        for pre in ((first, cont) if i == 0 else (cont, cont.rstrip())):
            if ln.startswith(pre):
                stripped.append(ln[len(pre):])
                break
        else:
            stripped.append(ln.lstrip(" >"))  # e.g. an un-indented closing tag: reported by clause (iii)/(ii), not here
    body = "\n".join(stripped)
    A = space.alphabet
    toks = ["zz"] + [A[k] for k in ks]
    gaps = ["sp"] + list(seps)
    viol = []
    pos = 0
    m0 = re.compile(r"\s*zz").match(body)
    if not m0:
        return Outcome(viol=[("i:lead-lost", {"input": text, "output": out})])
    pos = m0.end()
    if any(s == "adj" for s in seps):
        tags.append("adjacency")
    if width > 0 and any(len(A[k]) > width and A[k] in ATOMIC_STR for k in ks):
        tags.append("atomic-wider-than-width")
    for tok, sep, k in zip(toks[1:], gaps, ks):
        m = re.compile(r"(\s*)\\?(" + tok_re(tok) + ")").match(body, pos)
        if not m:
            viol.append(("i:construct-altered", {"input": text, "output": out, "token": tok, "width": width, "semantic": sem}))
            break
        if tok in ATOMIC_STR and "\n" in m.group(2) and "\n" not in tok:
            viol.append(("i:construct-split", {"input": text, "output": out, "token": tok, "width": width, "semantic": sem}))
        had_ws = sep != "adj"
        has_ws = bool(m.group(1))
        if had_ws != has_ws:
            viol.append(("ii:gap" + ("-" if had_ws else "+"), {"input": text, "output": out, "before_token": tok, "width": width, "semantic": sem}))
        pos = m.end()
    # (iii) a tag alone on an unindented line of a top-level paragraph
    if not layers and not viol:
        src_lines = text.rstrip("\n").split("\n")
        for sl in src_lines:
            if sl and not sl[0].isspace() and re.fullmatch(r"(\{%((?!%\}).)*%\}|\{#((?!#\}).)*#\}|\{\{((?!\}\}).)*\}\}|<!--((?!-->).)*-->)", sl.strip()) and sl == sl.strip():
                tags.append("tag-alone-on-line")
                want = re.sub(r"\s+", " ", sl)
                if not any(re.sub(r"\s+", " ", ol) == want for ol in lines):
                    viol.append(("iii:tag-line", {"input": text, "output": out, "tag_line": sl, "width": width, "semantic": sem}))
    seen = {}
    for s, d in viol:
        seen.setdefault(s, d)
    return Outcome(viol=list(seen.items()), tags=sorted(set(tags)), obs=hash(out))


OPEN = ["{% t %}", "<!-- t -->", "{{ t }}", '{% t a="b" %}']
CLOSE = ["{% /t %}", "<!-- /t -->", "{{ /t }}", "{% /t %}"]
CONTENT = [
    ("prose", ["some prose here"]),
    ("list", ["- a", "- b"]),
    ("olist", ["1. a", "2. b"]),
    ("table", ["| a | b |", "|---|---|", "| c | d |"]),
    ("list-prose", ["- a", "- b", "", "tail prose"]),
    ("prose-list", ["head prose", "", "- a", "- b"]),
    ("nested", ["- a", "  - b"]),
    ("task", ["- [ ] a {% #id %}", "- [x] b"]),
    ("list-loose", ["- a", "", "- b"]),
    # appended later: the last list line before the closing tag is indented by four or more columns
    ("nested3", ["- a", "  - b", "    - c"]),
    ("nested-wide", ["10. x", "    - y"]),
    ("nested3-ol", ["1. a", "   1. b", "      1. c"]),
]


# blocks put in front of the tag block (appended later): code blocks whose fences are legal but unusual; the tag block after
# them must be treated exactly as without them
PREAMBLE = [[], ["```", "x", "```", ""], ["```py", "x", "````", ""], ["~~~", "x", "~~~~~", ""], [" ```", " x", " ```", ""], ["````", "```", "````", ""],
            ["    code", ""], ["<div>", "x", "</div>", ""], ["> ```", "> x", ""],
            # appended later: a closing fence followed by spaces / a tab, an opening fence with trailing spaces
            ["```", "x", "```   ", ""], ["~~~", "x", "~~~\t", ""], ["```py  ", "x", "```", ""]]


class TagBlocks(Space):
    """opening tag line / content / closing tag line, with and without blank lines, indented closer."""

    prop = "C06"
    name = "tag-blocks"

    def __init__(self, tier):
        self.widths = (88, 12) if tier == "quick" else (88, 20, 12, 4, 0)
        self.floors = {"block-content": 50}

    def cases(self):
        for case in self._cases():
            yield case
            if case[3] is False and case[5] == "" and case[4] == 0:
                for pre in range(1, len(PREAMBLE)):
                    yield case + (pre,)

    def _cases(self):
        for t in range(len(OPEN)):
            for c in range(len(CONTENT)):
                for blank_before in (False, True):
                    for blank_after in (False, True):
                        for closer_indent in (0, 2):
                            for trailing in ("", " "):
                                for w in self.widths:
                                    for sem in (False, True):
                                        yield (t, c, blank_before, blank_after, closer_indent, trailing, w, sem)

    def text(self, case):
        t, c, bb, ba, ci, tr, w, sem = case[:8]
        pre = PREAMBLE[case[8]] if len(case) > 8 else []
        lines = pre + [OPEN[t] + tr] + ([""] if bb else []) + CONTENT[c][1] + ([""] if ba else []) + [" " * ci + CLOSE[t] + tr]
        return "\n".join(lines) + "\n"

    def describe(self, case):
        return {"text": self.text(case), "width": case[6], "semantic": case[7]}

    def smaller(self, case):
        if len(case) > 8:
            yield case[:8]
            for x in self.smaller(case[:8]):
                if x[3] is False and x[5] == "" and x[4] == 0:
                    yield x + (case[8],)
            return
        t, c, bb, ba, ci, tr, w, sem = case
        if t:
            yield (0, c, bb, ba, ci, tr, w, sem)
        if c > 1:
            yield (t, 1, bb, ba, ci, tr, w, sem)
        if bb:
            yield (t, c, False, ba, ci, tr, w, sem)
        if ba:
            yield (t, c, bb, False, ci, tr, w, sem)
        if ci:
            yield (t, c, bb, ba, 0, tr, w, sem)
        if tr:
            yield (t, c, bb, ba, ci, "", w, sem)
        if sem:
            yield (t, c, bb, ba, ci, tr, w, False)
        if w != 88:
            yield (t, c, bb, ba, ci, tr, 88, sem)

    def evaluate(self, case):
        t, c, bb, ba, ci, tr, w, sem = case[:8]
        text = self.text(case)
        kind = CONTENT[c][0]
        out = reformat_text(text, width=w, semantic=sem, cleanups=False)
        lines = out.rstrip("\n").split("\n")
        viol, tags = [], []
        op, cl = OPEN[t], CLOSE[t]
        # (iii) tag lines that are alone on an unindented line stay so; an INDENTED closer is outside the property
        # (it is a continuation of the preceding block for Markdown) and only has to survive intact
        if op not in lines:
            viol.append(("iii:open-tag-line", {"input": text, "output": out}))
        if ci == 0 and cl not in lines:
            viol.append(("iii:close-tag-line", {"input": text, "output": out}))
        if ci and cl not in out:
            viol.append(("i:close-tag-lost", {"input": text, "output": out}))
        if ci:
            return Outcome(viol=viol, tags=["indented-closer"], obs=hash(out))
        # (iv) block content is still a block and is separated by blank lines from the tags
        tree = readers.norm_a(out)
        labels = [n[0] for n in tree[2]]
        if kind != "prose":
            tags.append("block-content")
            want = "TABLE" if kind == "table" else "LIST"
            if want not in labels:
                viol.append(("iv:block-lost", {"input": text, "output": out, "blocks": labels}))
            elif op in lines and cl in lines:
                i, j = lines.index(op), len(lines) - 1 - lines[::-1].index(cl)
                inner = lines[i + 1:j]
                first_is_block = kind in ("list", "olist", "table", "list-prose", "nested", "task", "list-loose", "nested3", "nested-wide", "nested3-ol")
                last_is_block = kind in ("list", "olist", "table", "prose-list", "nested", "task", "list-loose", "nested3", "nested-wide", "nested3-ol")
                if first_is_block and (not inner or inner[0] != ""):
                    viol.append(("iv:no-blank-after-open", {"input": text, "output": out}))
                if last_is_block and (not inner or inner[-1] != ""):
                    viol.append(("iv:no-blank-before-close", {"input": text, "output": out}))
        seen = {}
        for s, d in viol:
            seen.setdefault(s, d)
        return Outcome(viol=list(seen.items()), tags=tags, obs=hash(out))


def spaces(tier):
    q = tier == "quick"
    ctx = docspace.contexts(1, ("ul", "bq"), (None,))
    para = ParaSpace("C06", "para", TOK, 2 if q else 3, oracle, ctx, sepnames=("adj", "sp", "nl"), full_upto=2, reps=REPS, lead="zz ",
                     valid=valid, floors={"adjacency": 500, "atomic-wider-than-width": 500, "tag-alone-on-line": 50})
    tag = TOK.index("{% t %}")
    para.class_rep = {i: tag for i in _TAGS if i != tag}
    para.class_rep[TOK.index("<!-- c dddd eeee. Ff -->")] = TOK.index("<!-- c -->")   # (a comment is not adjacent-paired with a {% %} tag)
    # runs of up to 4 (quick) / 5 tags with every mix of adjacent / separated boundaries: several boundaries of the same kind
    # in one paragraph, every critical width (a line break AT an earlier boundary must not disturb a later one)
    runs = ParaSpace("C06", "tag-runs", TOK_RUNS, 4 if q else 5, oracle, ctx, sepnames=("adj", "sp"), full_upto=3 if q else 4, reps=[0, 1, 2],
                     lead="zz ", valid=valid, floors={"adjacency": 500, "atomic-wider-than-width": 500})
    runs.class_rep = {2: 1}
    return [para, TagBlocks(tier), runs]

"""C14 — in-place formatting never leaves a damaged or half-written file.

The real CLI (flowmark.cli.main) runs in a forked child on a private tmpfs tree with every
file-system operation owned by the harness (vf/fsfault.py).  For each scenario with N operations:
a crash at every k <= N (for writes: after every byte prefix), a fault at every k with each of
EACCES / ENOSPC / EIO / ENOENT (writes: with and without a short prefix written), and all 2-fault
sequences (thorough).  After every execution each target holds the complete old or the complete new
content (or, with backups, is absent while .orig holds the old content), nothing else is modified,
and a run that reports success has really formatted everything.
Conformance: every scenario is also run fault-free as a real subprocess under strace; the mutating system
calls on the scenario directory must be exactly the operations the harness numbered (vf/strace_ops.py).
"""
from __future__ import annotations

import errno
import itertools
import os

from vf import core, fsfault
from vf.explorer import Outcome, Space

core.bind()
from flowmark import reformat_text  # noqa: E402

LEVEL = "fault_enumeration"
RULE = ("for each scenario the operations of a fault-free run are numbered; every crash point (every operation, every byte prefix of every "
        "write), every single fault (4 errno values per operation; writes with and without a short prefix) and, in the thorough tier, every "
        "pair of faults is executed; a case is non-trivial when the injected crash or fault really fired")
ASSUMPTIONS = ["process-death model with a coherent page cache: a crash loses nothing that was written before it (flowmark does not fsync, and the "
               "property quantifies over process death / failing operations, not power loss)",
               "operations are observed at the Python level: audit events for open/rename/mkdir/remove/rmdir/truncate/symlink/shutil and wrapped "
               "write/close of files opened for writing below the scenario directory"]

OLD = {"a.md": "hello   world\n\n- a\n- b\n", "b.md": "second    file\n\n* x\n", "c.md": "third  one  here\n"}


def fmt(text, auto=False):
    if auto:
        return reformat_text(text, semantic=True, cleanups=True, smartquotes=True, ellipses=True)
    return reformat_text(text, semantic=False, cleanups=False)


def _write(d, rel, content):
    p = os.path.join(d, rel)
    os.makedirs(os.path.dirname(p), exist_ok=True)
    if isinstance(content, bytes):
        with open(p, "wb") as f:
            f.write(content)
    else:
        with open(p, "w", newline="") as f:
            f.write(content)


# name -> dict(files, links, argv, targets {path: (old or None, new)}, backup, stdin, expect_fail, patch)
def scenarios():
    S = {}
    A, B, C = OLD["a.md"], OLD["b.md"], OLD["c.md"]
    S["i-backup"] = dict(files={"a.md": A}, argv=["-i", "a.md"], targets={"a.md": (A, fmt(A))}, backup=True)
    S["i-nobackup"] = dict(files={"a.md": A}, argv=["-i", "--nobackup", "a.md"], targets={"a.md": (A, fmt(A))})
    S["auto"] = dict(files={"a.md": A}, argv=["--auto", "a.md"], targets={"a.md": (A, fmt(A, True))})
    S["i-3files"] = dict(files={"a.md": A, "b.md": B, "c.md": C}, argv=["-i", "--nobackup", "a.md", "b.md", "c.md"],
                         targets={"a.md": (A, fmt(A)), "b.md": (B, fmt(B)), "c.md": (C, fmt(C))})
    S["i-3files-backup"] = dict(files={"a.md": A, "b.md": B, "c.md": C}, argv=["-i", "a.md", "b.md", "c.md"],
                                targets={"a.md": (A, fmt(A)), "b.md": (B, fmt(B)), "c.md": (C, fmt(C))}, backup=True)
    S["i-bad-middle"] = dict(files={"a.md": A, "bad.md": b"\xff\xfe not utf8 \xc3\x28\n", "c.md": C}, argv=["-i", "--nobackup", "a.md", "bad.md", "c.md"],
                             targets={"a.md": (A, fmt(A)), "c.md": (C, fmt(C))}, expect_fail=True)
    S["o-newdir"] = dict(files={"a.md": A}, argv=["-o", "new/dir/out.md", "a.md"], targets={"new/dir/out.md": (None, fmt(A))})
    S["o-existing"] = dict(files={"a.md": A, "out.md": "OLD OUTPUT\n"}, argv=["-o", "out.md", "a.md"], targets={"out.md": ("OLD OUTPUT\n", fmt(A))})
    S["stdin-o"] = dict(files={}, argv=["-o", "out.md", "-"], stdin=A, targets={"out.md": (None, fmt(A))})
    S["stdout"] = dict(files={"a.md": A}, argv=["a.md"], targets={})
    S["i-orig-exists"] = dict(files={"a.md": A, "a.md.orig": "STALE BACKUP\n"}, argv=["-i", "a.md"], targets={"a.md": (A, fmt(A))}, backup=True,
                              stale_orig="STALE BACKUP\n")
    S["i-orig-symlink"] = dict(files={"a.md": A, "elsewhere.md": "ELSEWHERE\n"}, links={"a.md.orig": "elsewhere.md"}, argv=["-i", "a.md"],
                               targets={"a.md": (A, fmt(A))}, backup=True)
    S["format-raises"] = dict(files={"a.md": A, "b.md": B}, argv=["-i", "--nobackup", "a.md", "b.md"], targets={"a.md": (A, fmt(A)), "b.md": (B, fmt(B))},
                              expect_fail=True, patch="format-raises-on-second")
    S["dir-auto"] = dict(files={"a.md": A, "sub/b.md": B}, argv=["--auto", "."], targets={"a.md": (A, fmt(A, True)), "sub/b.md": (B, fmt(B, True))})
    # appended later: inputs that are links (the file named on the command line is replaced, what it pointed to is not written through)
    S["i-symlink-input"] = dict(files={"real.md": A}, links={"link.md": "real.md"}, argv=["-i", "--nobackup", "link.md"],
                                targets={"link.md": ("->real.md", fmt(A))})
    S["i-symlink-input-backup"] = dict(files={"real.md": A}, links={"link.md": "real.md"}, argv=["-i", "link.md"],
                                       targets={"link.md": ("->real.md", fmt(A))}, backup=True)
    S["i-hardlink-input"] = dict(files={"a.md": A}, hardlinks={"hl.md": "a.md"}, argv=["-i", "--nobackup", "a.md"], targets={"a.md": (A, fmt(A))})
    S["auto-hardlink-input"] = dict(files={"a.md": A, "b.md": B}, hardlinks={"hl.md": "a.md"}, argv=["--auto", "a.md", "b.md"],
                                    targets={"a.md": (A, fmt(A, True)), "b.md": (B, fmt(B, True))})
    S["o-symlink-target"] = dict(files={"a.md": A, "real-out.md": "OLD OUTPUT\n"}, links={"out.md": "real-out.md"}, argv=["-o", "out.md", "a.md"],
                                 targets={"out.md": ("->real-out.md", fmt(A))})
    # appended later: the same path named twice (a shell glob plus an explicit name), other files after it
    S["i-duplicate-arg"] = dict(files={"a.md": A, "b.md": B, "c.md": C}, argv=["-i", "--nobackup", "a.md", "b.md", "a.md", "c.md"],
                                targets={"a.md": (A, fmt(A)), "b.md": (B, fmt(B)), "c.md": (C, fmt(C))})
    S["auto-duplicate-arg-2"] = dict(files={"a.md": A, "b.md": B, "c.md": C}, argv=["--auto", "./a.md", "a.md", "b.md", "c.md"],
                                     targets={"a.md": (A, fmt(A, True)), "b.md": (B, fmt(B, True)), "c.md": (C, fmt(C, True))})
    ACR = A.replace("\n", "\r\n")
    S["i-backup-crlf"] = dict(files={"a.md": ACR}, argv=["-i", "a.md"], targets={"a.md": (ACR, fmt(A))}, backup=True)
    S["auto-crlf-3files"] = dict(files={"a.md": ACR, "b.md": B, "c.md": C.replace("\n", "\r")}, argv=["--auto", "a.md", "b.md", "c.md"],
                                 targets={"a.md": (ACR, fmt(A, True)), "b.md": (B, fmt(B, True)), "c.md": (C.replace("\n", "\r"), fmt(C, True))})
    return S


SCEN = scenarios()
ERRNOS = [errno.EACCES, errno.ENOSPC, errno.EIO, errno.ENOENT]


def make_setup(sc):
    def setup(d):
        for rel, content in sc["files"].items():
            _write(d, rel, content)
        for rel, target in sc.get("links", {}).items():
            os.symlink(target, os.path.join(d, rel))
        for rel, target in sc.get("hardlinks", {}).items():
            os.link(os.path.join(d, target), os.path.join(d, rel))
    return setup


def make_body(sc):
    def body(d):
        import flowmark.cli as fcli
        import flowmark.reformat_api as api

        if sc.get("patch") == "format-raises-on-second":
            real = api.reformat_text
            calls = [0]

            def flaky(*a, **k):
                calls[0] += 1
                if calls[0] == 2:
                    raise RuntimeError("formatter failed")
                return real(*a, **k)

            api.reformat_text = flaky
        return fcli.main(list(sc["argv"]))
    return body


def run_scenario(sc, **kw):
    return fsfault.execute(make_setup(sc), make_body(sc), stdin_text=sc.get("stdin", ""), **kw)


def judge(sc, code, fired, snap, crashed):
    """-> list of (signature, detail)."""
    viol = []
    backup = sc.get("backup", False)
    for path, (old, new) in sc["targets"].items():
        cur = snap.get(path)
        if cur == new or cur == old:
            continue
        if cur is None and old is None:
            continue
        if cur is None and backup and snap.get(path + ".orig") == old:
            continue
        viol.append(("target-damaged" if cur is not None else "target-lost", {"path": path, "content": cur, "old": old, "new": new,
                                                                             "orig": snap.get(path + ".orig")}))
    # nothing else may be modified (inputs, unrelated files, link targets)
    for rel, content in sc["files"].items():
        if rel in sc["targets"] or rel.endswith(".orig"):
            continue
        want = content.decode("utf8", "backslashreplace") if isinstance(content, bytes) else content
        if snap.get(rel) != want:
            viol.append(("other-file-modified", {"path": rel, "content": snap.get(rel), "expected": want}))
    for rel, target in sc.get("hardlinks", {}).items():
        if snap.get(rel) != sc["files"][target]:
            viol.append(("other-file-modified", {"path": rel, "content": snap.get(rel), "expected": sc["files"][target], "note": "second hard link"}))
    # a backup, whenever it exists, holds the original bytes (scenarios without a pre-existing .orig)
    if backup and "stale_orig" not in sc and not sc.get("links"):
        for path, (old, new) in sc["targets"].items():
            o = snap.get(path + ".orig")
            if o is not None and o != old:
                viol.append(("backup-is-not-the-original", {"path": path + ".orig", "content": o, "original": old}))
    if not crashed:
        done = all(snap.get(p) == new for p, (old, new) in sc["targets"].items())
        if code == 0 and not done:
            viol.append(("exit0-but-not-formatted", {"exit": code, "fired": fired, "tree": {k: v[:60] for k, v in snap.items()}}))
        if sc.get("expect_fail") and code == 0:
            viol.append(("failure-not-reported", {"exit": code}))
        if fired and code == 0 and any(f[0] in ("fault", "fault-deferred") and f[3] != errno.ENOENT for f in fired) and not done:
            viol.append(("fault-swallowed", {"fired": fired}))
    return viol


class Faults(Space):
    prop = "C14"
    name = "faults"

    def __init__(self, tier):
        self.tier = tier
        self.floors = {"crash-fired": 100, "fault-fired": 200, "torn-write": 50, "deferred-write-fault": 20}
        self.dry = {}
        for name, sc in SCEN.items():
            code, log, fired, snap = run_scenario(sc)
            self.dry[name] = (code, log, snap)

    def selfcheck(self):
        """The fault-free run of every scenario must already satisfy the oracle and perform what it says."""
        problems = []
        for name, sc in SCEN.items():
            code, log, snap = self.dry[name]
            v = judge(sc, code, [], snap, crashed=False)
            if v:
                problems.append((name, v))
            if not sc.get("expect_fail") and (code != 0 or any(snap.get(p) != new for p, (o, new) in sc["targets"].items())):
                problems.append((name, "fault-free run did not succeed: exit %r" % code))
        return problems

    def cases(self):
        for name in SCEN:
            code, log, snap = self.dry[name]
            yield (name, "none", 0, None, None)
            for entry in log:
                k, op = entry[0], entry[1]
                if op == "write":
                    n = int(entry[3])
                    for j in range(0, n + 1):
                        yield (name, "crash", k, j, None)
                    for e in ERRNOS[:3]:
                        yield (name, "fault", k, 0, e)
                        yield (name, "fault", k, max(1, n // 2), e)
                    # the same failure met by a buffered writer: write() succeeds, the error surfaces at flush / close
                    for e in (errno.ENOSPC, errno.EIO):
                        yield (name, "fault-deferred", k, 0, e)
                        yield (name, "fault-deferred", k, max(1, n // 2), e)
                else:
                    yield (name, "crash", k, None, None)
                    for e in ERRNOS:
                        yield (name, "fault", k, None, e)
            if self.tier == "thorough":
                ops = [e[0] for e in log]
                for k1, k2 in itertools.combinations(ops, 2):
                    for e1, e2 in ((errno.ENOENT, errno.EIO), (errno.EIO, errno.EACCES), (errno.ENOENT, errno.ENOENT)):
                        yield (name, "fault2", k1, k2, (e1, e2))

    def describe(self, case):
        name, kind, k, p, e = case
        sc = SCEN[name]
        log = self.dry[name][1]
        op = next((x for x in log if x[0] == k), None)
        return {"scenario": name, "argv": sc["argv"], "files": {r: (c if isinstance(c, str) else repr(c)) for r, c in sc["files"].items()},
                "injection": kind, "at_operation": k, "operation": op, "param": p, "errno": e}

    def smaller(self, case):
        return ()

    def evaluate(self, case):
        name, kind, k, p, e = case
        sc = SCEN[name]
        if kind == "none":
            code, log, fired, snap = run_scenario(sc)
            return Outcome(viol=judge(sc, code, fired, snap, False), tags=[], obs=hash(tuple(sorted(snap.items()))))
        if kind == "crash":
            code, log, fired, snap = run_scenario(sc, crash_at=k, torn=p)
            crashed = code == fsfault.CRASH_EXIT
            tags = ["crash-fired"] if crashed else []
            if crashed and p:
                tags.append("torn-write")
            viol = judge(sc, code, fired, snap, crashed=crashed)
        elif kind == "fault":
            code, log, fired, snap = run_scenario(sc, faults={k: e}, torn=p)
            tags = ["fault-fired"] if fired else []
            viol = judge(sc, code, fired, snap, crashed=False)
        elif kind == "fault-deferred":
            code, log, fired, snap = run_scenario(sc, faults={k: (e, "deferred")}, torn=p)
            tags = ["fault-fired", "deferred-write-fault"] if fired else []
            viol = judge(sc, code, fired, snap, crashed=False)
        else:
            k2, (e1, e2) = p, e
            code, log, fired, snap = run_scenario(sc, faults={k: e1, k2: e2})
            tags = ["fault-fired"] if fired else []
            if len(fired) >= 2:
                tags.append("both-faults-fired")
            viol = judge(sc, code, fired, snap, crashed=False)
        seen = {}
        for s_, d in viol:
            d = dict(d, exit=code, fired=fired)
            seen.setdefault(f"{kind}:{s_}", d)
        return Outcome(viol=list(seen.items()), tags=tags, obs=hash(tuple(sorted(snap.items()))))


def spaces(tier):
    sp = Faults(tier)
    problems = sp.selfcheck()
    if problems:
        # the fault-free runs are part of the space ("none" cases) and will be reported as violations there
        print("note: fault-free runs with problems:", problems)
    return [sp]


# ------------------------------------------------------------------------------ conformance of the operation model
def _canon_ops(ops, written, sc):
    """Rename run-specific temporary names (anything that is not a scenario file, target or backup) to tmp#1, tmp#2, ..."""
    static = set(sc["files"]) | set(sc["targets"]) | {p + ".orig" for p in sc["targets"]} | set(sc.get("links", {}))
    for p in list(static):
        while "/" in p:
            p = p.rsplit("/", 1)[0]
            static.add(p)
    names = {}

    def c(p):
        if p is None or p in static:
            return p
        return names.setdefault(p, "tmp#%d" % (len(names) + 1))

    return [tuple([o[0]] + [c(x) for x in o[1:]]) for o in ops], {c(k): v for k, v in written.items()}


def model_ops(log):
    """The same vocabulary from the harness's own operation log (fault-free run)."""
    ops, written = [], {}
    for e in log:
        kind = e[1]
        if kind == "open-w":
            ops.append(("open-w", e[2]))
        elif kind == "write":
            written[e[2]] = written.get(e[2], 0) + int(e[3])
        elif kind == "rename":
            ops.append(("rename", e[2], e[3]))
        elif kind in ("remove", "mkdir", "rmdir", "truncate", "symlink", "link"):
            ops.append((kind, e[2]))
    return ops, written


def conformance(sp):
    """Every scenario's fault-free run once more as a real subprocess under strace: the mutating system calls on the scenario
    directory must be exactly the operations the harness numbered (same order, same paths, same byte counts), i.e. no file
    operation of the CLI escapes the injector."""
    from vf import strace_ops
    import tempfile
    import shutil
    res = {"strace": "unavailable", "scenarios_compared": 0, "syscalls_matched": 0}
    errors = []
    if not strace_ops.available():
        return res, errors
    res["strace"] = "used"
    for name, sc in SCEN.items():
        if sc.get("patch"):
            continue  # needs an in-process patch of the formatter; its file operations are those of i-3files
        d = os.path.realpath(tempfile.mkdtemp(prefix="st-", dir=core.scratch_root()))
        try:
            make_setup(sc)(d)
            code = "import sys; sys.path.insert(0, %r); from flowmark.cli import main; sys.exit(main(%r))" % (os.path.join(core.REPO, "src"), list(sc["argv"]))
            out = strace_ops.run(["/venv/bin/python", "-c", code], d, stdin=sc.get("stdin", ""))
        finally:
            shutil.rmtree(d, ignore_errors=True)
        if out is None:
            res["strace"] = "failed"
            break
        sys_ops, sys_written = _canon_ops(out[0], out[1], sc)
        mod_ops, mod_written = _canon_ops(*model_ops(sp.dry[name][1]), sc)
        res["scenarios_compared"] += 1
        if sys_ops != mod_ops or sys_written != mod_written:
            errors.append(f"operation model does not match the system calls of scenario {name}: syscalls={sys_ops} bytes={sys_written} "
                          f"harness={mod_ops} bytes={mod_written}")
        else:
            res["syscalls_matched"] += len(sys_ops) + len(sys_written)
    return res, errors


def extra(reports, tier):
    sp = reports[0].space
    conf, errors = conformance(sp)
    return {"scenarios": len(SCEN), "operations_per_scenario": {n: len(sp.dry[n][1]) for n in SCEN},
            "operation_log_sample": sp.dry["i-backup"][1], "syscall_conformance": conf, "harness_errors": errors}

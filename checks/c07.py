"""C07 — YAML frontmatter is passed through exactly and does not influence the body.

closed frontmatter:   fmt(fm + body, o) == lf(fm) + fmt(body, o)     (lf: CRLF -> LF only)
unclosed frontmatter: fmt(x, o) == x (+ final newline if missing), and formatting it again changes nothing.
"""
from __future__ import annotations

import itertools
import re

from vf import core
from vf.explorer import Outcome, Space

core.bind()
from flowmark import reformat_text  # noqa: E402

LEVEL = "exploration"
RULE = ("complete enumeration of frontmatter line sequences over the alphabet x line terminator x closing-line form x leading blank "
        "line x body x option set; a case is non-trivial when formatting the body alone changes it, or the frontmatter contains a "
        "character that Python treats as a line boundary, or CRLF")
ASSUMPTIONS = ["the frontmatter of a document is defined by an independent reference splitter: first non-blank line is '---' (modulo "
               "surrounding spaces), closed by the next such line; only LF and CRLF end lines",
               "bodies that themselves begin with a '---' line are excluded from the independence clause (formatted alone they would be "
               "read as frontmatter)"]

FM_LINES = ["a: 1", "a: \"it's...\"", "- x", "# h", "", "  ", "a   ", "***", "{% t %}", "---x", "a: |", "  long long long long long long long long long long long long long long long long long long line",
            "u2028: a b", "u2029: a b", "nel: a\u0085b", "ff: a\x0cb", "vt: a\x0bb", "fs: a\x1cb\x1dc\x1ed", "cr: a\rb", "nbsp: x", "tab:\tx",
            # appended later: other document markers of YAML and look-alikes of the delimiter
            "...", "--- #", "----", "- --", "%YAML 1.2", "+++"]
CLOSERS = ["---", "--- ", " ---", None]
BODIES = ["", "prose text   here. Another sentence follows it.", "  indented prose", "# H", "- a\n- b", "```\nx\n```", "{% t %}",
          "text\n\n---\n\nmore", "it's \"q\"...", "\n\nbody after blanks", "**B**\n===", "[x]: u 't'", "---\nx\n---\nrest",
          # appended later: bodies whose lines share a common indent (the whole-document dedent must act as it does without frontmatter)
          "  - apples\n  - pears", "    para line\n\n    - item", "  a\n    b\n  c", "\tx\n\ty"]
OPTS = [dict(width=88, semantic=False, cleanups=False), dict(width=10, semantic=False, cleanups=False),
        dict(width=88, semantic=True, cleanups=True, smartquotes=True, ellipses=True), dict(width=0, semantic=True, cleanups=True, smartquotes=True, ellipses=True),
        dict(width=10, semantic=True, cleanups=False), dict(width=88, semantic=False, cleanups=True, smartquotes=True, ellipses=True, list_spacing="loose"),
        dict(width=1, semantic=False, cleanups=False), dict(width=88, plaintext=True)]


def ref_split(text):
    """Reference splitter -> (frontmatter_lines or None, body_text, closed).

    The body is returned exactly as written (CRLF terminators kept): "formatted exactly as it would be without the
    frontmatter" is a statement about the body text the author wrote, not about an LF-normalised copy of it."""
    parts = re.split(r"(\r\n|\n)", text)          # [line, terminator, line, terminator, ..., last line]
    lines = parts[0::2]
    starts, pos = [], 0
    for k, ln in enumerate(lines):
        starts.append(pos)
        pos += len(ln) + (len(parts[2 * k + 1]) if 2 * k + 1 < len(parts) else 0)
    i = 0
    while i < len(lines) and lines[i].strip(" \t") == "":
        i += 1
    if i >= len(lines) or lines[i].strip(" \t") != "---":
        return None, text, False
    j = i + 1
    while j < len(lines):
        if lines[j].strip(" \t") == "---":
            return lines[i:j + 1], (text[starts[j + 1]:] if j + 1 < len(lines) else ""), True
        j += 1
    return lines[i:], "", False


class FM(Space):
    prop = "C07"
    name = "frontmatter"

    def __init__(self, tier):
        q = tier == "quick"
        self.quick = q
        self.maxn = 2 if q else 3
        self.opts = [0, 2, 3, 6, 7] if q else list(range(len(OPTS)))   # quick: default, everything on (88 / 0), width 1, plaintext
        self.line_reps = [0, 1, 4, 6, 8, 12, 14, 18, 21]
        self.floors = {"body-reformatted": 1000, "special-line-char": 500, "crlf": 1000, "unclosed": 500}

    def cases(self):
        for n in range(0, self.maxn + 1):
            # positions that range over the whole line alphabet; the rest use one line per kind (thorough: two full positions up to
            # two lines, one for three lines -- the complete 27^2 x 9 product took over 50 minutes)
            full = 1 if (self.quick or n >= 3) else 2
            pools = [range(len(FM_LINES))] * min(n, full) + [self.line_reps] * max(0, n - full)
            for ls in itertools.product(*pools):
                for crlf in (False, True):
                    for closer in range(len(CLOSERS)):
                        for lead in (0, 1, 2, 3):
                            for body in range(len(BODIES)):
                                if CLOSERS[closer] is None and body not in (0, 1, 4):
                                    continue
                                for o in self.opts:
                                    yield (ls, crlf, closer, lead, body, o)

    def text(self, case):
        ls, crlf, closer, lead, body, o = case
        nl = "\r\n" if crlf else "\n"
        lines = [" ---" if lead == 3 else "---"] + [FM_LINES[i] for i in ls]
        if CLOSERS[closer] is not None:
            lines.append(CLOSERS[closer])
        fm = nl.join(lines) + nl
        b = BODIES[body].replace("\n", nl)
        # lead: 0 none, 1 a blank line (with the document's terminator), 2 a whitespace-only line, 3 indented opening line
        pre = {0: "", 1: nl, 2: "  " + nl, 3: ""}[lead]
        return pre + fm + b + (nl if b else "")

    def describe(self, case):
        return {"text": self.text(case), "options": OPTS[case[5]]}

    def smaller(self, case):
        ls, crlf, closer, lead, body, o = case
        for i in range(len(ls)):
            yield (ls[:i] + ls[i + 1:], crlf, closer, lead, body, o)
        for i in range(len(ls)):
            if ls[i]:
                yield (ls[:i] + (0,) + ls[i + 1:], crlf, closer, lead, body, o)
        if crlf:
            yield (ls, False, closer, lead, body, o)
        if closer not in (0, 3):
            yield (ls, crlf, 0, lead, body, o)
        if lead:
            yield (ls, crlf, closer, 0, body, o)
        if body > 1:
            yield (ls, crlf, closer, lead, 1, o)
        if body == 1:
            yield (ls, crlf, closer, lead, 0, o)
        if o:
            yield (ls, crlf, closer, lead, body, 0)

    def evaluate(self, case):
        ls, crlf, closer, lead, body, o = case
        text = self.text(case)
        opts = OPTS[o]
        fm_lines, body_text, closed = ref_split(text)
        out = reformat_text(text, **opts)
        viol, tags = [], []
        if crlf:
            tags.append("crlf")
        if any(ord(ch) in (0x2028, 0x2029, 0x85, 0x0c, 0x0b, 0x1c, 0x1d, 0x1e, 0x0d) for i in ls for ch in FM_LINES[i]):
            tags.append("special-line-char")
        if opts.get("plaintext"):
            # plaintext mode has no frontmatter handling; only termination/robustness is C12's business
            return Outcome(tags=tags)
        if closed:
            fm = "\n".join(fm_lines) + "\n"
            if body_text.strip() == "":
                expected = fm
            elif ref_split(body_text)[0] is not None and ref_split(body_text)[2] or body_text.lstrip("\n").startswith("---"):
                return Outcome(tags=tags + ["body-begins-with-dashes-excluded"])
            else:
                fb = reformat_text(body_text, **opts)
                if fb != body_text:
                    tags.append("body-reformatted")
                expected = fm + fb
            if out != expected:
                sig = "closed:frontmatter-altered" if not out.startswith(fm) else "closed:body-differs"
                viol.append((sig, {"input": text, "options": opts, "output": out, "expected": expected}))
        else:
            tags.append("unclosed")
            expected = text if text.endswith("\n") else text + "\n"
            if out != expected:
                viol.append(("unclosed:changed", {"input": text, "options": opts, "output": out, "expected": expected}))
            elif reformat_text(out, **opts) != out:
                viol.append(("unclosed:not-idempotent", {"input": text, "options": opts, "output": out}))
        return Outcome(viol=viol, tags=tags, obs=hash(out))


class FMCli(Space):
    """The same exactness clause observed at the command line ("CLI file output"): a file holding frontmatter + body is formatted
    in place / to stdout / from stdin and the frontmatter must arrive character for character (CRLF -> LF only)."""

    prop = "C07"
    name = "frontmatter-cli"
    ENTRIES = ("file-inplace", "file-stdout", "stdin")

    def __init__(self, tier):
        self.lines = list(range(len(FM_LINES)))
        self.floors = {"special-line-char": 20, "crlf": 20}

    def cases(self):
        for li in self.lines:
            for crlf in (False, True):
                for e in range(len(self.ENTRIES)):
                    for body in (1, 4):
                        yield (li, crlf, e, body)

    def text(self, case):
        li, crlf, e, body = case
        nl = "\r\n" if crlf else "\n"
        return nl.join(["---", FM_LINES[li], "---"]) + nl + BODIES[body].replace("\n", nl) + nl

    def describe(self, case):
        return {"file_content": self.text(case), "entry": self.ENTRIES[case[2]]}

    def smaller(self, case):
        li, crlf, e, body = case
        if crlf:
            yield (li, False, e, body)
        if body != 1:
            yield (li, crlf, e, 1)
        if e:
            yield (li, crlf, 0, body)

    def evaluate(self, case):
        from vf import cli
        import os
        li, crlf, e, body = case
        text = self.text(case)
        tags = []
        if crlf:
            tags.append("crlf")
        if any(ord(ch) in (0x2028, 0x2029, 0x85, 0x0c, 0x0b, 0x1c, 0x1d, 0x1e, 0x0d) for ch in FM_LINES[li]):
            tags.append("special-line-char")
        fm_lines, body_text, closed = ref_split(text)
        if not closed:
            return Outcome(tags=tags)
        opts = dict(width=88, semantic=False, cleanups=False)
        expected = "\n".join(fm_lines) + "\n" + reformat_text(body_text, **opts)
        entry = self.ENTRIES[e]
        with cli.scenario({"a.md": text}) as d:
            if entry == "file-inplace":
                code, out, err = cli.run_inproc(["-i", "--nobackup", "a.md"], d)
                with open(os.path.join(d, "a.md"), newline="", encoding="utf8") as f:
                    got = f.read()
            elif entry == "file-stdout":
                code, got, err = cli.run_inproc(["a.md"], d)
            else:
                code, got, err = cli.run_inproc(["-"], d, stdin=text)
        viol = []
        if code != 0 or got != expected:
            sig = "cli:frontmatter-altered" if not got.startswith("\n".join(fm_lines) + "\n") else "cli:body-differs"
            viol.append((sig, {"file_content": text, "entry": entry, "exit": code, "output": got, "expected": expected}))
        return Outcome(viol=viol, tags=tags, obs=hash(got))


def spaces(tier):
    return [FM(tier), FMCli(tier)]

"""C04 — code, tags, URLs and other non-prose spans are reproduced verbatim.

Oracle: the sequence of literal spans (vf/spans.py) extracted from the output equals the one
extracted from the input, for every typography/cleanup option setting; code blocks additionally must
be re-read with the same lines by the independent reader (the emitted fence is sufficient).
"""
from __future__ import annotations

import itertools

from vf import core, docspace, readers, spans
from vf.explorer import Outcome, Space
from vf.paraspace import ParaSpace

core.bind()
from flowmark import reformat_text  # noqa: E402

LEVEL = "exploration"
RULE = ("complete enumeration of (a) code blocks: fence character x fence length x info string x all content line sequences of the "
        "alphabet x container contexts x terminated/unterminated, (b) literal-span tokens next to typography tokens in paragraphs, "
        "headings, list items and table cells x widths x modes; every case under the tier's typography/cleanup option settings "
        "(all 16 in the thorough tier); a case is non-trivial when the output text differs from the input text")
ASSUMPTIONS = ["code spans, tags and inline HTML are compared up to collapsing of whitespace runs, everything else exactly",
               "definition titles are compared as title text (the delimiters are syntax)"]

SPANS_TOK = ["aa", "`c d`", "`` `x` ``", "``x ` y``", "` `` `", "`it's \"q\"...`", "[l k](u)", '[l](u "t")', "[l](u 't')", "[l](u (t))",
             '[l](<u v> "it\'s")', "[l](u(v))", "[l](u\\))", "[l][r]", "![i](u 't...')", "<http://u.v/it's>", "http://u.v/w_x*y*", "www.u.v/a...b",
             "<b>", '<a href="x y" title=\'it...\'>', "</a>", "{% t a=\"x y\" b='z' %}", "{{ v|f(\"...\") }}", "{# it's... #}",
             "<!-- \"c\" ... -->", "`{% t %}`", "x[^n]"]
Q_TOK = ["'", '"', "it's", '"q', 'q"', "...", "a...", "…"]
# appended later (earlier indices are referenced by known findings and must stay stable)
LATE_TOK = ["`a\\|b`", "[l\\|m](u\\|v)", "<a href=\"x\\|y\">", "{% t a...b %}", "{{ v...w|f('it's') }}", "{# c...d #}", "<!-- c...d -->",
            # appended later: legal but unusual spellings
            "[a](<>)", "[a]()", "<HTTP://U.V/it's>", "<o'r@b.cc>", "mailto:a@b.cc", "`` ` ``", "[![i](u 't')](v \"w\")", "[a][]", "<br/>",
            "www.a.b/c_d.", "http://a.b/c)", "http://a.b/c?d=e&amp;f=\"g\"", "[a](u 'it''s')", "[a](</u v>)", "![](u)",
            "![i][r]", "![r]", "[r][]", "[r]",
            "http://u.v/\u4e2d\u6587abc/x", "www.u.v/a\u4e2d", "<http://u.v/\u4e2d\u6587abc>", "`\u4e2d\u6587abc`", "[l](u/\u4e2d\u6587abc)",
            # appended later: a backslash directly in front of a pipe (in a table cell the source `\\|` is a backslash and a pipe)
            "`a\\\\|b`", "[l](u\\\\|v)", "`a\\\\`",
            # appended later: titles that begin or end with a quote character of their own, a backslash in a title
            "[l](u '\"a\" b')", "[l](u 'say \"hi\"')", "![i](u (a \"b\"))", "[l](u \"a\\\\ b\")",
            # appended later: a "<" that starts what looks like a tag but is prose, in front of a code span
            "a <b and `p - q > r - s`", "x <y `c - d`"]
ALPH = SPANS_TOK + Q_TOK + LATE_TOK
REPS = [ALPH.index(t) for t in ("aa", "`c d`", '[l](u "t")', "<http://u.v/it's>", "{% t a=\"x y\" b='z' %}", '"q', 'q"', "...", "it's")]

DEFS = "\n\n[r]: <u v> 'it''s \"t\"...'\n[^n]: fn\n"


def optsets(tier):
    full = [(c, sq, el) for c in (False, True) for sq in (False, True) for el in (False, True)]
    return full if tier == "thorough" else [(False, False, False), (True, True, True), (False, True, False), (False, False, True)]


def make_oracle(tier, with_defs=False):
    opts = optsets(tier)

    def oracle(space, case, text, width, sem):
        if with_defs:
            # (a second definition with the same target stands before the one the tokens use: the label a link uses is part of it)
            text = text + "\n[q]: <u v> \"it's t...\"\n[r]: <u v> \"it's t...\"\n\n[^n]: fn\n"
        sin = spans.spans(text)
        viol, tags = [], []
        seen = set()
        # quick tier: token pairs run under "everything off" and "everything on" only; single tokens under all four settings
        # thorough tier: single tokens under all 8 settings, pairs under the 4 covering settings, triples under "everything off" and
        # "everything on" (with 75 tokens the full product for pairs did not finish in 22 minutes)
        if tier == "thorough" and len(case[1]) > 1:
            use = optsets("quick") if len(case[1]) == 2 else opts[:1] + opts[-1:]
        else:
            use = opts[:2] if (tier == "quick" and len(case[1]) > 1) else opts
        for (c, sq, el) in use:
            out = reformat_text(text, width=width, semantic=sem, cleanups=c, smartquotes=sq, ellipses=el)
            if out != text:
                tags.append("output-differs")
            d = spans.first_span_diff(sin, spans.spans(out))
            if d and d[0] not in seen:
                seen.add(d[0])
                viol.append(("span:" + d[0], {"input": text, "output": out, "width": width, "semantic": sem,
                                              "options": {"cleanups": c, "smartquotes": sq, "ellipses": el},
                                              "expected": sin[d[0]], "observed": spans.spans(out)[d[0]]}))
        if any(sin.values()):
            tags.append("has-spans")
        return Outcome(viol=viol, tags=sorted(set(tags)))

    return oracle


CODE_LINES = ["x", "", "  ", "```", "````", "~~~", " ```", "   ````", "> x", "- x", "    x", "\tx", "x  ", "{% t %}", '"q"...', "# h", "`", "<!--",
              # appended later: fence runs indented by 4-6 columns (not closers as written; closers once 1-3 columns of indent are removed)
              "    ```", "      ```", "     ~~~",
              # appended later: characters that str.splitlines() treats as line ends but Markdown does not
              "a\u2028b", "c\x0bd\x1ce\u0085f"]
INFOS = ["", "py", "py x=1", "~x", "{.a}", "a\\*b c\\_d"]   # (the last one appended later: backslash escapes in the info string)


class CodeBlocks(Space):
    """Fenced code blocks: fence char x length x info x content line sequences x contexts."""

    prop = "C04"
    name = "codeblocks"

    def __init__(self, tier, deep=False):
        q = tier == "quick"
        self.tier = tier
        if deep:  # thorough only: two container layers, short contents
            self.name = "codeblocks-deep"
            self.ctx = [c for c in docspace.contexts(2, ("ul", "ol10", "bq", "fn"), (None,)) if len(c[0]) == 2]
            self.maxlines, self.lens, self.line_ids = 2, (3, 4), [0, 1, 3, 4, 5, 8, 9, 10]
            self.floors = {"output-differs": 100}
        else:
            self.ctx = docspace.contexts(1, ("ul", "ol10", "bq", "fn"), (None, "p"))
            self.maxlines = 2 if q else 3
            self.lens = (3, 4) if q else (3, 4, 5)
            self.line_ids = list(range(len(CODE_LINES)))
            self.floors = {"fence-like-line-inside": 200, "output-differs": 100}
        # lines used for the third position (thorough): one representative per kind
        self.line_reps = [0, 1, 2, 3, 4, 5, 6, 8, 10, 13]
        self.opts = optsets(tier)[:2] if q else optsets("quick")

    def cases(self):
        for ci in range(len(self.ctx)):
            # I = indented code block (no fence; the formatter has to choose one); a / b = backtick fence indented by 1 / 3
            # spaces with the content lines as written (appended later)
            for ch in "`~Iab":
                if ch in "ab" and len(self.ctx[ci][0]) > 0 and self.tier == "quick":
                    continue
                for ln in (self.lens if ch != "I" else (0,)):
                    for info in range(len(INFOS)):
                        if (ch in "`ab" and "`" in INFOS[info]) or (ch == "I" and info):
                            continue
                        for n in range(0, self.maxlines + 1):
                            if n >= 3 and info > 1:
                                continue   # three content lines: without and with a plain info string only (the full product took > 25 min)
                            pools = [self.line_ids] * min(n, 2) + [self.line_reps] * max(0, n - 2)
                            for ls in itertools.product(*pools):
                                for term in (True, False):
                                    if not term and (ci != 0 or info != 0 or ch == "I"):
                                        continue
                                    if ch == "I" and (n == 0 or not CODE_LINES[ls[0]].strip() or not CODE_LINES[ls[-1]].strip()):
                                        continue  # an indented block cannot begin or end with a blank line
                                    yield (ci, ch, ln, info, ls, term)

    def text(self, case):
        ci, ch, ln, info, ls, term = case
        layers, b, a = self.ctx[ci]
        if ch == "I":
            lines = ["zz", ""] + [("    " + CODE_LINES[i]) if CODE_LINES[i].strip() else "" for i in ls]
            return docspace.in_context(lines, layers, b, a)
        if ch in "ab":
            ind = " " * (1 if ch == "a" else 3)
            fence = "`" * ln
            lines = ["zz", "", ind + fence + INFOS[info]] + [CODE_LINES[i] for i in ls] + ([ind + fence] if term else [])
            return docspace.in_context(lines, layers, b, a)
        fence = ch * ln
        lines = [fence + INFOS[info]] + [CODE_LINES[i] for i in ls] + ([fence] if term else [])
        return docspace.in_context(lines, layers, b, a)

    def describe(self, case):
        return {"text": self.text(case)}

    def smaller(self, case):
        ci, ch, ln, info, ls, term = case
        none = ((), None, None)
        if self.ctx[ci] != none and none in self.ctx:
            yield (self.ctx.index(none), ch, ln, info, ls, term)
        layers, b, a = self.ctx[ci]
        for cj, (l2, b2, a2) in enumerate(self.ctx):
            if cj != ci and len(l2) == len(layers) - 1 and (l2 == layers[1:] or l2 == layers[:-1]):
                yield (cj, ch, ln, info, ls, term)
        for i in range(len(ls)):
            yield (ci, ch, ln, info, ls[:i] + ls[i + 1:], term)
        for i in range(len(ls)):
            if ls[i]:
                yield (ci, ch, ln, info, ls[:i] + (0,) + ls[i + 1:], term)
        if info:
            yield (ci, ch, ln, 0, ls, term)
        if ln > 3:
            yield (ci, ch, ln - 1, info, ls, term)
        if ch == "I" and (not ls or not CODE_LINES[ls[0]].strip() or not CODE_LINES[ls[-1]].strip()):
            return
        if ch in "~ab":
            yield (ci, "`", ln, info, ls, term)
        if ch == "b":
            yield (ci, "a", ln, info, ls, term)
        if ch == "I":
            yield (ci, "`", 3, 0, ls, True)
        if not term:
            yield (ci, ch, ln, info, ls, True)

    def evaluate(self, case):
        text = self.text(case)
        ci, ch, ln, info, ls, term = case
        if text.strip() + "\n" != text or not any(l and not l[0].isspace() for l in text.split("\n")):
            return Outcome()  # the formatter strips/dedents the document as a whole: only strip-normal inputs are compared
        # the reference reading: is the INPUT block what we meant?  (a content line that closes the fence early
        # makes a different document; such cases are still explored, with whatever Reader A reads as reference)
        sin = spans.spans(text)
        tags, viol = [], []
        if any(CODE_LINES[i].strip().startswith(("```", "~~~")) for i in ls):
            tags.append("fence-like-line-inside")
        seen = set()
        for width in (88, 1):
            for (c, sq, el) in self.opts:
                out = reformat_text(text, width=width, semantic=False, cleanups=c, smartquotes=sq, ellipses=el)
                if out != text:
                    tags.append("output-differs")
                so = spans.spans(out)
                d = spans.first_span_diff(sin, so)
                if d and d[0] not in seen:
                    seen.add(d[0])
                    viol.append(("span:" + d[0], {"input": text, "output": out, "width": width, "expected": sin[d[0]], "observed": so[d[0]]}))
                elif not d and readers.readers_agree(text) and "codeblock-b" not in seen:
                    tags.append("reader-b-consulted")
                    cb_in = [n for n in _codes(readers.norm_b(text))]
                    cb_out = [n for n in _codes(readers.norm_b(out))]
                    if cb_in != cb_out:
                        seen.add("codeblock-b")
                        viol.append(("span:codeblock-b", {"input": text, "output": out, "expected": cb_in, "observed": cb_out}))
        return Outcome(viol=viol, tags=sorted(set(tags)))


def _codes(tree, acc=None):
    if acc is None:
        acc = []
    if tree[0] == "CODE":
        acc.append(tree[1])
    for k in tree[2]:
        _codes(k, acc)
    return acc


def spaces(tier):
    q = tier == "quick"
    ctx = docspace.contexts(1, ("ul", "bq"), (None,))
    kw = dict(full_upto=2, reps=REPS, max_special_seps=1)
    para = ParaSpace("C04", "inline-para", ALPH, 2 if q else 3, make_oracle(tier, with_defs=True), ctx, sepnames=("sp", "nl", "hb"),
                     widths=(1, 8, 88), lead="zz ", floors={"has-spans": 1000, "output-differs": 1000}, **kw)
    head = ParaSpace("C04", "inline-heading", ALPH, 2, make_oracle(tier), docspace.contexts(1, ("ul",), (None,)), sepnames=("sp",),
                     widths=(8, 88), lead="# zz ", floors={"has-spans": 500}, modes=(False,), **kw)
    cell = ParaSpace("C04", "inline-cell", ALPH, 2, make_oracle(tier), docspace.contexts(0), sepnames=("sp",), widths=(8, 88),
                     lead="| zz | ", trail=" |\n|---|---|", floors={"has-spans": 500}, modes=(False,), **kw)
    return [para, head, cell, CodeBlocks(tier)] + ([] if q else [CodeBlocks(tier, deep=True)])

"""C11 — semantic line breaks fall at sentence ends and keep edits local.

Model: a reference sentence wrapper written from the property text (one greedy loop over the words;
a word is appended if it fits; after a sentence-end word the line is closed if it is at least the
minimum line length long).  Every model trace (all paragraphs of sentence shapes chosen around the
two thresholds, widths, indent pairs) is replayed against line_wrap_by_sentence and compared line by
line; the first differing line is classified (overflow / early-break / missed-break).
Edit relation: for EVERY single-sentence replacement, the lines before the previous sentence's last
line and the lines after the first later sentence that ends a line of at least the minimum length
must be byte-identical.
Detector: every short word over an alphabet of letters, digits, terminators and closers against a
regex-free reference predicate.
"""
from __future__ import annotations

import itertools

from vf import core, docspace
from vf.explorer import Outcome, Space

core.bind()
from flowmark import reformat_text  # noqa: E402
from flowmark.linewrapping.line_wrappers import line_wrap_by_sentence  # noqa: E402
from flowmark.linewrapping.sentence_split_regex import heuristic_end_of_sentence  # noqa: E402

LEVEL = "model_checking"
RULE = ("complete enumeration of sentence sequences from the shape pool x widths x indent pairs (model traces, each replayed against the "
        "implementation), of all single-sentence replacements of each (edit relation), and of all words up to the length bound over the "
        "detector alphabet; non-trivial = the model output has at least two lines; states = distinct (column, after-sentence-end) model "
        "states, transitions = words consumed by the model")
ASSUMPTIONS = ["minimum line length 20 (DEFAULT_MIN_LINE_LEN)", "sentence = maximal word run ending in a word accepted by the reference detector"]
MIN = 20


# ------------------------------------------------------------------------------- reference detector
def ref_is_end(word):
    w = word.rstrip(" ")
    closers = "'\"’”)"
    if len(w) >= 1 and w[-1] in ".?!":
        body = w[:-1]
        if body and body[-1] in closers:      # closer before the terminator
            body = body[:-1]
    elif len(w) >= 2 and w[-1] in closers and w[-2] in ".?!":
        body = w[:-2]                          # closer after the terminator
    else:
        return False
    j = len(body)
    while j > 0 and (body[j - 1].isalnum() or body[j - 1] == "_"):
        j -= 1
    run = body[j:]
    return len(run) >= 2 and all(c.isalpha() for c in run) and run[-1].islower()


class Detector(Space):
    prop = "C11"
    name = "detector"
    SYM = ("a", "B", "é", "1", ".", "?", "!", '"', ")", "’", ":", "_")

    def __init__(self, maxlen):
        self.maxlen = maxlen
        self.floors = {"is-sentence-end": 100}

    def cases(self):
        for n in range(1, self.maxlen + 1):
            yield from itertools.product(range(len(self.SYM)), repeat=n)

    def describe(self, case):
        return {"word": "".join(self.SYM[i] for i in case)}

    def smaller(self, case):
        for i in range(len(case)):
            if len(case) > 1:
                yield case[:i] + case[i + 1:]

    def evaluate(self, case):
        w = "".join(self.SYM[i] for i in case)
        exp, got = ref_is_end(w), heuristic_end_of_sentence(w)
        viol = [("detector:" + ("missed" if exp else "spurious"), {"word": w, "reference": exp, "implementation": got})] if exp != got else []
        return Outcome(viol=viol, tags=["is-sentence-end"] if exp else [])


# ------------------------------------------------------------------------------- reference wrapper
def words_of(sents):
    words = []
    for si, shape in enumerate(sents):
        for wi, n in enumerate(shape):
            ch = "abcdefghij"[(si * 3 + wi) % 10]
            words.append(ch * (n - 1) + "." if (wi == len(shape) - 1 and n >= 3) else ch * n)
    return words


def model_wrap(words, width, init, sub, trace=None):
    """Reference: greedy fill; after a sentence end the line is closed when it is >= MIN long."""
    lines, cur, col, indent = [], [], init, init
    for w in words:
        need = len(w) + (1 if cur else 0)
        if cur and col + need > width:
            lines.append(cur)
            cur, col, indent = [], sub, sub
            need = len(w)
        cur.append(w)
        col += need
        ended = ref_is_end(w)
        if trace is not None:
            trace.append((min(col, width + 2), ended))
        if ended and col - indent >= MIN:
            lines.append(cur)
            cur, col, indent = [], sub, sub
    if cur:
        lines.append(cur)
    return [" ".join(l) for l in lines]


SHAPES = [(5,), (4, 3, 3), (9, 9), (9, 10), (10, 10), (11, 11), (11, 12), (12, 12), (14, 15), (15, 15), (19, 20), (3,), (35,), (2, 2), (6, 6, 6, 7)]


class Paragraphs(Space):
    prop = "C11"
    name = "sentence-model"

    def __init__(self, tier):
        q = tier == "quick"
        self.maxs = 3 if q else 4
        self.widths = (24, 30, 40) if q else (22, 24, 30, 40)
        self.indents = ((0, 0), (2, 2), (6, 4))
        self.reps = [0, 2, 3, 5, 7, 11, 12]
        self.floors = {"multi-line": 500, "edit-pairs": 1000}

    def cases(self):
        for width in self.widths:
            for init, sub in self.indents:
                for n in range(1, self.maxs + 1):
                    pools = [range(len(SHAPES))] * min(n, 2) + [self.reps] * max(0, n - 2)
                    for ids in itertools.product(*pools):
                        yield (width, init, sub, tuple(SHAPES[i] for i in ids))

    def describe(self, case):
        width, init, sub, sents = case
        return {"text": " ".join(words_of(sents)), "width": width, "initial_indent": " " * init, "subsequent_indent": " " * sub}

    def smaller(self, case):
        width, init, sub, sents = case
        for i in range(len(sents)):
            if len(sents) > 1:
                room = sum(sents[i]) + len(sents[i])
                yield (width, init, sub, sents[:i] + sents[i + 1:])
                if width - room >= 1:
                    yield (width - room, init, sub, sents[:i] + sents[i + 1:])
        for i, sh in enumerate(sents):
            for j in range(len(sh)):
                if len(sh) > 1:
                    yield (width, init, sub, sents[:i] + (sh[:j] + sh[j + 1:],) + sents[i + 1:])
                    if width - sh[j] - 1 >= 1:
                        yield (width - sh[j] - 1, init, sub, sents[:i] + (sh[:j] + sh[j + 1:],) + sents[i + 1:])
        for i, sh in enumerate(sents):
            for j in range(len(sh)):
                if sh[j] > 1:
                    s2 = sents[:i] + (sh[:j] + (sh[j] - 1,) + sh[j + 1:],) + sents[i + 1:]
                    yield (width, init, sub, s2)
                    if width > 1:
                        yield (width - 1, init, sub, s2)
        if init and sub:
            yield (width, init - 1, sub - 1, sents)
            if width > 1:
                yield (width - 1, init - 1, sub - 1, sents)
        if init:
            yield (width, init - 1, sub, sents)
        if sub:
            yield (width, init, sub - 1, sents)
        if width > 1:
            yield (width - 1, init, sub, sents)

    @staticmethod
    def impl(words, width, init, sub):
        res = line_wrap_by_sentence(width=width, is_markdown=True)(" ".join(words), " " * init, " " * sub)
        out = []
        for i, ln in enumerate(res.split("\n")):
            ind = init if i == 0 else sub
            out.append(ln[ind:] if ln[:ind] == " " * ind else ln)
        return out

    def evaluate(self, case):
        width, init, sub, sents = case
        words = words_of(sents)
        trace = []
        model = model_wrap(words, width, init, sub, trace)
        got = self.impl(words, width, init, sub)
        viol, tags = [], []
        if len(model) >= 2:
            tags.append("multi-line")
        if got != model:
            sig = "model:other"
            for i, (g, m) in enumerate(zip(got, model)):
                if g != m:
                    ind = init if i == 0 else sub
                    if ind + len(g) > width and " " in g:
                        sig = "model:overflow"
                    elif m.startswith(g + " "):
                        sig = "model:early-break"
                    elif g.startswith(m + " "):
                        sig = "model:missed-break"
                    break
            viol.append((sig, {"text": " ".join(words), "width": width, "indents": [init, sub], "got": got, "model": model}))
        # ---- edit relation (evaluated at the enumerated width/indent; the shape pool provides the replacements).
        # Sentences are those of the reference detector.  With P = index of the last word of the sentence before the
        # one that holds the first edited word, and Q = the first sentence-end word at or after the last edited word
        # that ends a line of at least MIN in BOTH outputs: lines before P's line and lines after Q's line are identical.
        npairs = 0
        pos1 = self._word_lines(got)
        for i in range(len(sents)):
            first_edit = sum(len(sh) for sh in sents[:i])
            n_after = sum(len(sh) for sh in sents[i + 1:])
            # P: last sentence-end word strictly before the sentence containing the first edited word
            ends_before = [k for k in range(first_edit) if ref_is_end(words[k])]
            for alt in SHAPES:
                if alt == sents[i]:
                    continue
                s2 = sents[:i] + (alt,) + sents[i + 1:]
                w2 = words_of(s2)
                got2 = self.impl(w2, width, init, sub)
                pos2 = self._word_lines(got2)
                if len(pos1) != len(words) or len(pos2) != len(w2):
                    break  # lossless-ness is C05's business
                npairs += 1
                # the sentence holding the first edited word starts after the last end before it; the one before that ends at P
                if len(ends_before) >= 1:
                    # is the first edited word the start of a new sentence or inside one that began earlier?  either way the
                    # previous sentence is the one ending at ends_before[-1] if the edited word's sentence starts right after it
                    P = ends_before[-1]
                    pre = min(pos1[P], pos2[P])
                    if got[:pre] != got2[:pre]:
                        viol.append(("edit:prefix-changed", {"text": " ".join(words), "edited": " ".join(w2), "sentence": i, "width": width,
                                                             "indents": [init, sub], "before": got, "after": got2}))
                        break
                # suffix: words aligned from the end
                for back in range(n_after, 0, -1):
                    k1, k2 = len(words) - back - 1, len(w2) - back - 1   # candidate Q: the word just before the last `back` words
                    if k1 < first_edit + len(sents[i]) - 1 or k2 < first_edit + len(alt) - 1:
                        continue
                    if not (ref_is_end(words[k1]) and ref_is_end(w2[k2])):
                        continue
                    l1, l2 = pos1[k1], pos2[k2]
                    closes1 = len(got[l1]) >= MIN and pos1[k1 + 1] != l1
                    closes2 = len(got2[l2]) >= MIN and pos2[k2 + 1] != l2
                    if closes1 and closes2:
                        if got[l1 + 1:] != got2[l2 + 1:]:
                            viol.append(("edit:suffix-changed", {"text": " ".join(words), "edited": " ".join(w2), "sentence": i, "width": width,
                                                                 "indents": [init, sub], "before": got, "after": got2}))
                        break
            if any(sg.startswith("edit:") for sg, _ in viol):
                break
        if npairs:
            tags.append("edit-pairs")
        seen = {}
        for s_, d in viol:
            seen.setdefault(s_, d)
        return Outcome(viol=list(seen.items()), tags=tags, obs=hash(tuple(got)), states=set(trace), transitions=len(trace), traces=1 + npairs)

    @staticmethod
    def _word_lines(lines):
        pos = []
        for li, l in enumerate(lines):
            pos.extend([li] * len(l.split(" ")))
        return pos

    def _sentence_end_lines(self, lines, sents):
        pos = self._word_lines(lines)
        ends, k = [], 0
        for sh in sents:
            k += len(sh)
            ends.append(pos[min(k, len(pos)) - 1])
        return ends

    def _ends_line(self, lines, sents, j):
        """True iff the last word of sentence j is the last word on its line."""
        pos = self._word_lines(lines)
        k = sum(len(sh) for sh in sents[:j + 1])
        return k >= len(pos) or pos[k] != pos[k - 1]


import re  # noqa: E402

_ATOMS = re.compile(r"\[[^\]]*\]\([^)]*\)|`[^`]*`\S*|\{%.*?%\}|\S+")  # words, with multi-word atomic constructs kept whole

DOC_SENTS = ["Aaaa bbbb cccc dddd.", "Ee ff.", "Gggggggggg hhhhhhhhhh iiiiiiiiii jjjjjjjjjj kkkkkkkkkk.", "Ll mm nn oo pp qq rr ss tt?", "Uu {% t %} vv.",
             "Ww\\\nxx yy.", "Zz `c d.` e.",
             # appended later: sentences that START with a multi-word atomic construct
             "[A link with text](u) is here.", "`pip install x` runs now.", "{% t a=\"b c\" %} ends here.",
             # appended later: a sentence end followed by a closing quote / bracket that is set off by a space
             "\u00ab Bonjour tous et bienvenue. \u00bb", "( down at the very bottom. )", "\u201c it was all quite fine. \u201d", "' so they all said then. '",
             # appended later: a soft break in front of a word that looks like block syntax but is ordinary text there
             "Mm nn oo pp back in\n2019. Qq rr.", "Ss tt uu vv ww\n| xx yy zz."]


class Docs(Space):
    """Through reformat_text(semantic=True): clause (b) — a detected sentence end is followed by a break unless the line so far is
    shorter than the minimum — and clause (a) — a break occurs only after a sentence end, where the width forces it, at a hard
    break or next to a tag — in list / quote contexts."""

    prop = "C11"
    name = "docs"

    def __init__(self, tier):
        self.maxs = 2 if tier == "quick" else 3
        self.ctx = docspace.contexts(1, ("ul", "bq", "ol10"), (None,))
        self.widths = (30, 88)
        self.floors = {"multi-line": 100}

    def cases(self):
        for ci in range(len(self.ctx)):
            for n in range(1, self.maxs + 1):
                for ids in itertools.product(range(len(DOC_SENTS)), repeat=n):
                    for w in self.widths:
                        yield (ci, ids, w)

    def text(self, case):
        ci, ids, w = case
        para = " ".join(DOC_SENTS[i] for i in ids)
        layers, b, a = self.ctx[ci]
        return docspace.in_context(para.split("\n"), layers, b, a)

    def describe(self, case):
        return {"text": self.text(case), "width": case[2]}

    def smaller(self, case):
        ci, ids, w = case
        if ci:
            yield (0, ids, w)
        for i in range(len(ids)):
            if len(ids) > 1:
                yield (ci, ids[:i] + ids[i + 1:], w)
        for i in range(len(ids)):
            if ids[i]:
                yield (ci, ids[:i] + (0,) + ids[i + 1:], w)
        # (appended later) ... or by any earlier sentence of the pool: one root cause (the short-line merge) otherwise shows up once per
        # combination of the later sentences
        for i in range(len(ids)):
            for j in range(1, ids[i]):
                yield (ci, ids[:i] + (j,) + ids[i + 1:], w)

    def evaluate(self, case):
        ci, ids, w = case
        text = self.text(case)
        out = reformat_text(text, width=w, semantic=True, cleanups=False)
        layers = self.ctx[ci][0]
        first, cont = docspace.indent_of(layers)
        lines = out.rstrip("\n").split("\n")
        viol, tags = [], []
        if len(lines) >= 2:
            tags.append("multi-line")
        body = []
        for i, ln in enumerate(lines):
            pre = first if i == 0 else cont
            body.append(ln[len(pre):] if ln.startswith(pre) else ln.lstrip(" >"))
        for i, ln in enumerate(body[:-1]):
            ws = _ATOMS.findall(ln)
            last = ws[-1]
            nxt = _ATOMS.findall(body[i + 1])[0]
            ind = len(first if i == 0 else cont)
            forced = ind + len(ln) + 1 + len(nxt.lstrip("\\")) > w
            is_tag = last.endswith(("%}", "}}", "-->")) or nxt.startswith(("{%", "{{", "<!--"))
            if not (ref_is_end(last) or forced or last.endswith("\\") or is_tag):
                viol.append(("a:unforced-break", {"input": text, "output": out, "line": ln, "width": w}))
                break
        for i, ln in enumerate(body):
            ws = _ATOMS.findall(ln)
            sofar = 0
            for k, wd in enumerate(ws[:-1]):
                sofar += len(wd) + (1 if k else 0)
                if ref_is_end(wd) and sofar >= MIN and "`" not in ln:
                    viol.append(("b:sentence-end-not-followed-by-break", {"input": text, "output": out, "line": ln, "word": wd, "width": w}))
                    break
        seen = {}
        for s_, d in viol:
            seen.setdefault(s_, d)
        return Outcome(viol=list(seen.items()), tags=tags, obs=hash(out), traces=1)


def spaces(tier):
    return [Detector(5 if tier == "quick" else 6), Paragraphs(tier), Docs(tier)]

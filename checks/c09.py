"""C09 — ellipsis conversion touches only three-dot runs in prose.

Function level: EVERY string up to a length bound over {letter, capital, space, dot, quote, comma, newline,
dash} through typography.ellipses.ellipses(): idempotent; mapping the ellipsis character back to three
dots gives the input again up to the spaces directly around a three-dot run; nothing else changes.
Document level: fmt(x, ellipses=on) mapped back equals fmt(x, ellipses=off) up to whitespace, the literal
spans and the structure are identical, and formatting again changes nothing.
"""
from __future__ import annotations

import itertools
import re

from vf import core, docspace, readers, spans
from vf.explorer import Outcome, Space
from vf.paraspace import ParaSpace

core.bind()
from flowmark import reformat_text  # noqa: E402
from flowmark.typography.ellipses import ellipses  # noqa: E402

LEVEL = "exploration"
RULE = ("function level: every string of length <= N over the 8-symbol alphabet (complete enumeration); document level: every token "
        "sequence of the dots x typography x inline x tag alphabet x separators x contexts x widths x modes x other options; a case is "
        "non-trivial when the conversion changed at least one character")
ASSUMPTIONS = ["'normalizes the spaces directly around it' is read as: after mapping the ellipsis back to three dots, input and output are equal "
               "once every whitespace run directly adjacent to a three-dot run is deleted on both sides"]

SYM = ("a", "A", " ", ".", "'", ",", "\n", "-", '"', ")", "9")   # (the last three were appended later; lengths 6 / 7 instead of 7 / 8)
_ADJ = re.compile(r"[ \t]*(?<![.])\.\.\.[ \t]*")  # a longer run counts as three dots + what follows (e.g. "...." = ellipsis + full stop)


def strip_around_dots(s):
    return _ADJ.sub("...", s)


class Fn(Space):
    prop = "C09"
    name = "function"

    def __init__(self, maxlen):
        self.maxlen = maxlen
        self.floors = {"converted": 1000}

    def cases(self):
        for n in range(1, self.maxlen + 1):
            yield from itertools.product(range(len(SYM)), repeat=n)

    def describe(self, case):
        return {"string": "".join(SYM[i] for i in case)}

    def smaller(self, case):
        for i in range(len(case)):
            if len(case) > 1:
                yield case[:i] + case[i + 1:]
        for i in range(len(case)):
            if case[i]:
                yield case[:i] + (0,) + case[i + 1:]

    def evaluate(self, case):
        s = "".join(SYM[i] for i in case)
        out = ellipses(s)
        viol, tags = [], []
        if out != s:
            tags.append("converted")
        if ellipses(out) != out:
            viol.append(("fn:not-idempotent", {"input": s, "once": out, "twice": ellipses(out)}))
        if "…" in out and "..." not in s:
            viol.append(("fn:ellipsis-invented", {"input": s, "output": out}))
        back = out.replace("…", "...")
        if strip_around_dots(back) != strip_around_dots(s):
            viol.append(("fn:other-change", {"input": s, "output": out}))
        return Outcome(viol=viol, tags=tags)


TOK = ["aa", "...", "a...", "...b", "a...b", "....", "..", "…", "Bb.", "wait...", "\"q\"...", "('p')...", "...?", "...,", "-...", "1...2",
       "`c...d`", "[l...](u...v)", "<http://u/...>", "http://u.v/a...b", "{% t a=\"...\" %}", "<!-- c... -->", "<b title=\"...\">", "*e...*", "it's", "- ...",
       # appended later
       "{% t a...b %}", "{{ v...w }}", "{# c...d #}", "<!-- c...d -->", "[r...s]", "\\.\\.\\.",
       # tags whose body holds their own delimiter characters
       "{% t \"5% a...b\" %}", "{{ v...w | f('}') }}", "{# c...d # e #}", "<!-- c...d - e -- f -->", "{% t a...b -%}",
       # tags that span a soft line break; a private-use character that a placeholder scheme might rely on
       "{% t\na=\"x...y\" %}", "{{ v...w\n| f }}", "{# c...d\ne...f #}", "<!-- c...d\ne -->", "\ue000"]
REPS = [TOK.index(t) for t in ("aa", "...", "a...b", "wait...", "`c...d`", "{% t a=\"...\" %}", "Bb.", "http://u.v/a...b")]


def _inv(s):
    return s.replace("…", "...")


def _norm_ws(s):
    return re.sub(r"\s+", "", s)


def flat_text(tree):
    """All text of a Reader-A tree in document order (container prefixes and markup are not part of it)."""
    label, attrs, kids = tree
    own = "".join(str(v) for k, v in attrs if k in ("s", "content", "dest", "title", "label") and v)
    return own + "".join(flat_text(k) for k in kids)


def make_oracle(tier):
    others = [dict(cleanups=False, smartquotes=False), dict(cleanups=True, smartquotes=True)]
    if tier == "thorough":
        others += [dict(cleanups=False, smartquotes=True, list_spacing="loose")]

    def oracle(space, case, text, width, sem):
        viol, tags = [], []
        seen = set()
        for o in others:
            a = reformat_text(text, width=width, semantic=sem, ellipses=False, **o)
            b = reformat_text(text, width=width, semantic=sem, ellipses=True, **o)
            if a != b:
                tags.append("converted")
            sig = None
            # the input may itself contain the ellipsis character: compare after mapping BOTH back
            if _norm_ws(_inv(flat_text(readers.norm_a(b)))) != _norm_ws(_inv(flat_text(readers.norm_a(a)))):
                sig = "doc:text-changed"
            elif spans.first_span_diff(spans.spans(a), spans.spans(b)):
                sig = "doc:span-changed:" + spans.first_span_diff(spans.spans(a), spans.spans(b))[0]
            else:
                ta, tb = readers.norm_a(a), readers.norm_a(b)
                d = readers.first_diff(ta, tb)
                if d and d != "T.s":
                    sig = "doc:structure-changed"
                elif reformat_text(b, width=width, semantic=sem, ellipses=True, **o) != b and reformat_text(a, width=width, semantic=sem, ellipses=False, **o) == a:
                    # (a document that is not stable even with the option off is C02's business, not the conversion's)
                    sig = "doc:not-idempotent"
            if sig and sig not in seen:
                seen.add(sig)
                viol.append((sig, {"input": text, "width": width, "semantic": sem, "other_options": o, "off": a, "on": b}))
        return Outcome(viol=viol, tags=sorted(set(tags)))

    return oracle


def spaces(tier):
    q = tier == "quick"
    oracle = make_oracle(tier)
    ctx = docspace.contexts(1, ("ul", "bq", "fn"), (None,))
    kw = dict(full_upto=2, reps=REPS, max_special_seps=1)
    dots = TOK.index("...")
    class_rep = {TOK.index(t): dots for t in ("a...", "...b", "a...b", "....", "wait...", "\"q\"...", "('p')...", "...?", "...,", "-...", "1...2", "- ...")}
    for t in ("{% t \"5% a...b\" %}", "{{ v...w | f('}') }}", "{# c...d # e #}", "<!-- c...d - e -- f -->", "{% t a...b -%}",
              "{% t\na=\"x...y\" %}", "{{ v...w\n| f }}", "{# c...d\ne...f #}", "<!-- c...d\ne -->"):
        class_rep[TOK.index(t)] = TOK.index("{% t a...b %}")
    para = ParaSpace("C09", "doc-para", TOK, 2 if q else 3, oracle, ctx, sepnames=("sp", "nl", "hb"), widths=(1, 30, 88),
                     lead="zz yy xx ww vv uu tt ", floors={"converted": 1000}, **kw)
    para0 = ParaSpace("C09", "doc-para-start", TOK, 2, oracle, docspace.contexts(0), sepnames=("sp", "nl"), widths=(1, 88), lead="",
                      floors={"converted": 100}, **kw)
    one_line = lambda toks, seps: not any("\n" in t for t in toks)   # a heading / table row cannot hold a tag with a line break inside
    head = ParaSpace("C09", "doc-heading", TOK, 2, oracle, docspace.contexts(0), sepnames=("sp",), widths=(88,), lead="# zz ",
                     modes=(False,), floors={"converted": 100}, valid=one_line, **kw)
    cell = ParaSpace("C09", "doc-cell", TOK, 2, oracle, docspace.contexts(0), sepnames=("sp",), widths=(88,), lead="| zz | ",
                     trail=" |\n|---|---|", modes=(False,), floors={"converted": 100}, valid=one_line, **kw)
    for sp in (para, para0, head, cell):
        sp.class_rep = class_rep
    return [Fn(6 if q else 7), para, para0, head, cell]

"""C15 — all entry points agree: CLI, file API and text API give the same bytes.

The complete option product (width x plaintext x semantic x cleanups x smartquotes x ellipses x
list-spacing) is run through every entry point (text API = reference; file API to stdout / -o /
in place +-backup; CLI on a file to stdout / -o / -i / -i --nobackup; CLI on stdin to stdout / -o;
CLI on three files to stdout / in place; CLI on a directory) in-process, and through the real
`python -m flowmark.cli` subprocess for a covering set (quick) / all option sets (thorough).
--auto is compared with its expansion alone and combined with every other flag; usage errors must
exit non-zero and leave the tree byte-identical.
"""
from __future__ import annotations

import contextlib
import io
import itertools
import os
import sys

from vf import cli, core
from vf.explorer import Outcome, Space

core.bind()
from flowmark import reformat_text  # noqa: E402
from flowmark.reformat_api import reformat_file, reformat_files  # noqa: E402

LEVEL = "exploration"
RULE = ("complete product of option values x entry points (in-process), real subprocess for a pairwise-covering set of option sets "
        "(quick) or all of them (thorough); a case is non-trivial when the option set's reference output differs from the default-option "
        "output (so a dropped or swapped argument is visible); the document is proven discriminating at start-up")
ASSUMPTIONS = ["the text API reformat_text(text, **options) is the reference", "scenario directories live under /dev/shm so that no config file is found"]

DOC = ('# **Head**\n\nHe said "hi"... and it\'s a long sentence here. Another sentence follows it now. Short one.\n\n'
       '- a\n- b\n\n1. x\n\n2. y\n')
DOC2 = '## **Two**\n\n"Second" file... it\'s shorter.\n\n* p\n\n* q\n'
DOC3 = 'Third *file* with "quotes"... and a list:\n- one\n- two\n'

WIDTHS = (0, 20, 88, 120)
LS = ("preserve", "loose", "tight")
OPTSETS = [dict(width=w, plaintext=p, semantic=s, cleanups=c, smartquotes=q, ellipses=e, list_spacing=ls)
           for w in WIDTHS for p in (False, True) for s in (False, True) for c in (False, True) for q in (False, True)
           for e in (False, True) for ls in LS]
ENTRIES = ["file-api-stdout", "file-api-o", "file-api-inplace", "file-api-inplace-nobackup", "cli-stdout", "cli-o", "cli-i", "cli-i-nobackup",
           "cli-stdin-stdout", "cli-stdin-o", "cli-3files-stdout", "cli-3files-i", "cli-dir-i"]


def ref(text, o):
    return reformat_text(text, **o)


def argv_of(o):
    a = ["-w", str(o["width"])]
    if o["plaintext"]:
        a.append("-p")
    if o["semantic"]:
        a.append("-s")
    if o["cleanups"]:
        a.append("-c")
    if o["smartquotes"]:
        a.append("--smartquotes")
    if o["ellipses"]:
        a.append("--ellipses")
    a += ["--list-spacing", o["list_spacing"]]
    return a


def check_discriminating():
    base = dict(width=88, plaintext=False, semantic=False, cleanups=False, smartquotes=False, ellipses=False, list_spacing="preserve")
    b = ref(DOC, base)
    problems = []
    for k, v in dict(width=20, semantic=True, cleanups=True, smartquotes=True, ellipses=True, plaintext=True).items():
        if ref(DOC, {**base, k: v}) == b:
            problems.append(k)
    if len({ref(DOC, {**base, "list_spacing": m}) for m in LS}) != 3:
        problems.append("list_spacing")
    if len({ref(DOC, {**base, "width": w}) for w in WIDTHS}) < 3:
        problems.append("widths")
    return problems


class Entry(Space):
    prop = "C15"
    name = "entry-points"

    def __init__(self, tier, mode):
        self.tier, self.mode = tier, mode  # mode: "inproc" | "subprocess"
        self.name = "entry-points-" + mode
        self.floors = {"option-set-discriminates": 50}
        if mode == "subprocess" and tier == "quick":
            self.optidx = self._pairwise()
        else:
            self.optidx = list(range(len(OPTSETS)))
        self.entries = ENTRIES if mode == "inproc" else [e for e in ENTRIES if e.startswith("cli")]

    @staticmethod
    def _pairwise():
        """Greedy pairwise-covering subset of OPTSETS (deterministic)."""
        keys = list(OPTSETS[0])
        need = set()
        for a, b in itertools.combinations(range(len(keys)), 2):
            for o in OPTSETS:
                need.add((a, o[keys[a]], b, o[keys[b]]))
        chosen = []
        while need:
            best, gain = None, -1
            for i, o in enumerate(OPTSETS):
                g = sum(1 for a, b in itertools.combinations(range(len(keys)), 2) if (a, o[keys[a]], b, o[keys[b]]) in need)
                if g > gain:
                    best, gain = i, g
            o = OPTSETS[best]
            chosen.append(best)
            for a, b in itertools.combinations(range(len(keys)), 2):
                need.discard((a, o[keys[a]], b, o[keys[b]]))
        return chosen

    def cases(self):
        for oi in self.optidx:
            for e in self.entries:
                yield (oi, e)

    def describe(self, case):
        return {"options": OPTSETS[case[0]], "entry": case[1], "mode": self.mode}

    def smaller(self, case):
        oi, e = case
        o = OPTSETS[oi]
        base = dict(width=88, plaintext=False, semantic=False, cleanups=False, smartquotes=False, ellipses=False, list_spacing="preserve")
        for k in o:
            if o[k] != base[k]:
                o2 = {**o, k: base[k]}
                yield (OPTSETS.index(o2), e)

    def evaluate(self, case):
        oi, entry = case
        o = OPTSETS[oi]
        run = cli.run_inproc if self.mode == "inproc" else cli.run_subprocess
        exp, exp2, exp3 = ref(DOC, o), ref(DOC2, o), ref(DOC3, o)
        base = dict(width=88, plaintext=False, semantic=False, cleanups=False, smartquotes=False, ellipses=False, list_spacing="preserve")
        tags = ["option-set-discriminates"] if exp != ref(DOC, base) else []
        viol = []
        kw = dict(o)
        av = argv_of(o)

        def bad(what, got, want):
            viol.append((f"{entry}:{what}", {"entry": entry, "options": o, "got": got if got is None else got[:400], "expected": want[:400]}))

        # n.md is already formatted for this option set except for its final newline
        with cli.scenario({"a.md": DOC, "b.md": DOC2, "c.md": DOC3, "d/e.md": DOC2, "d/f.md": DOC3, "n.md": exp.rstrip("\n")}) as d:
            A = os.path.join(d, "a.md")
            if entry.startswith("file-api"):
                old = os.getcwd()
                os.chdir(d)
                try:
                    if entry == "file-api-stdout":
                        buf = io.StringIO()
                        with contextlib.redirect_stdout(buf):
                            reformat_file("a.md", None, **kw)
                        if buf.getvalue() != exp:
                            bad("output", buf.getvalue(), exp)
                        if open(A).read() != DOC:
                            bad("input-touched", open(A).read(), DOC)
                    elif entry == "file-api-o":
                        reformat_file("a.md", "out/x.md", **kw)
                        got = open(os.path.join(d, "out/x.md")).read() if os.path.exists(os.path.join(d, "out/x.md")) else None
                        if got != exp:
                            bad("output", got, exp)
                        if open(A).read() != DOC:
                            bad("input-touched", open(A).read(), DOC)
                    else:
                        nb = entry.endswith("nobackup")
                        reformat_files(["a.md", "b.md", "n.md"], inplace=True, nobackup=nb, **kw)
                        if open(os.path.join(d, "n.md")).read() != ref(exp.rstrip("\n"), o):
                            bad("almost-formatted-file", open(os.path.join(d, "n.md")).read(), ref(exp.rstrip("\n"), o))
                        if open(A).read() != exp:
                            bad("output", open(A).read(), exp)
                        if open(os.path.join(d, "b.md")).read() != exp2:
                            bad("second-file", open(os.path.join(d, "b.md")).read(), exp2)
                        has = os.path.exists(A + ".orig")
                        if has == nb:
                            bad("backup-presence", str(has), str(not nb))
                        elif has and open(A + ".orig").read() != DOC:
                            bad("backup-content", open(A + ".orig").read(), DOC)
                finally:
                    os.chdir(old)
            elif entry == "cli-stdout":
                code, out, err = run(av + ["a.md"], d)
                if code != 0 or out != exp:
                    bad("output", out, exp)
                if open(A).read() != DOC:
                    bad("input-touched", open(A).read(), DOC)
            elif entry == "cli-o":
                code, out, err = run(av + ["-o", "new/dir/out.md", "a.md"], d)
                p = os.path.join(d, "new/dir/out.md")
                got = open(p).read() if os.path.exists(p) else None
                if code != 0 or got != exp or out != "":
                    bad("output", got, exp)
                if open(A).read() != DOC:
                    bad("input-touched", open(A).read(), DOC)
            elif entry in ("cli-i", "cli-i-nobackup"):
                nb = entry.endswith("nobackup")
                code, out, err = run(av + ["-i"] + (["--nobackup"] if nb else []) + ["a.md", "n.md"], d)
                if code != 0 or open(A).read() != exp or out != "":
                    bad("output", open(A).read(), exp)
                if open(os.path.join(d, "n.md")).read() != ref(exp.rstrip("\n"), o):
                    bad("almost-formatted-file", open(os.path.join(d, "n.md")).read(), ref(exp.rstrip("\n"), o))
                has = os.path.exists(A + ".orig")
                if has == nb:
                    bad("backup-presence", str(has), str(not nb))
                elif has and open(A + ".orig").read() != DOC:
                    bad("backup-content", open(A + ".orig").read(), DOC)
            elif entry == "cli-stdin-stdout":
                code, out, err = run(av + ["-"], d, stdin=DOC)
                if code != 0 or out != exp:
                    bad("output", out, exp)
            elif entry == "cli-stdin-o":
                code, out, err = run(av + ["-o", "so.md", "-"], d, stdin=DOC)
                p = os.path.join(d, "so.md")
                got = open(p).read() if os.path.exists(p) else None
                if code != 0 or got != exp:
                    bad("output", got, exp)
            elif entry == "cli-3files-stdout":
                code, out, err = run(av + ["a.md", "b.md", "c.md"], d)
                if code != 0 or out != exp + exp2 + exp3:
                    bad("output", out, exp + exp2 + exp3)
            elif entry == "cli-3files-i":
                code, out, err = run(av + ["-i", "--nobackup", "c.md", "a.md", "b.md"], d)
                got = [open(os.path.join(d, f)).read() for f in ("a.md", "b.md", "c.md")]
                if code != 0 or got != [exp, exp2, exp3]:
                    bad("output", "\n=====\n".join(got), "\n=====\n".join([exp, exp2, exp3]))
            elif entry == "cli-dir-i":
                code, out, err = run(av + ["-i", "--nobackup", "d"], d)
                got = [open(os.path.join(d, "d", f)).read() for f in ("e.md", "f.md")]
                if code != 0 or got != [exp2, exp3]:
                    bad("output", "\n=====\n".join(got), "\n=====\n".join([exp2, exp3]))
                if open(A).read() != DOC:
                    bad("file-outside-directory-touched", open(A).read(), DOC)
        return Outcome(viol=viol, tags=tags, obs=hash((exp, entry)))


AUTO_EXTRA = [[], ["-w", "20"], ["-w", "0"], ["-s"], ["-c"], ["--smartquotes"], ["--ellipses"], ["--list-spacing", "loose"], ["--list-spacing", "tight"],
              ["-p"], ["-w", "20", "--list-spacing", "tight"], ["--nobackup"], ["-i"]]
USAGE = [([], ""), (["-w", "20"], ""), (["-o", "x.md", "a.md", "b.md"], ""), (["-i", "-"], "x"), (["--auto"], ""), (["--list-files"], ""),
         (["-i", "--nobackup", "-"], "x"), (["--auto", "-"], "x"), (["nonexistent.md"], ""), (["-i", "nonexistent.md", "a.md"], ""),
         # appended later: the offending argument comes after arguments that are fine on their own
         (["-i", "--nobackup", "a.md", "-"], "x"), (["-i", "a.md", "b.md", "-"], "x"), (["--auto", "a.md", "-"], "x"), (["-i", "-", "a.md"], "x"),
         (["-o", "x.md", "a.md", "-"], "x")]


class AutoAndUsage(Space):
    prop = "C15"
    name = "auto-and-usage"

    def __init__(self, mode):
        self.mode = mode
        self.name = "auto-and-usage-" + mode
        self.floors = {"auto": 5, "usage-error": 5}

    def cases(self):
        for i in range(len(AUTO_EXTRA)):
            yield ("auto", i)
        for i in range(len(USAGE)):
            yield ("usage", i)

    def describe(self, case):
        return {"kind": case[0], "argv": (["--auto"] + AUTO_EXTRA[case[1]] + ["a.md"]) if case[0] == "auto" else USAGE[case[1]][0], "mode": self.mode}

    def evaluate(self, case):
        kind, i = case
        run = cli.run_inproc if self.mode == "inproc" else cli.run_subprocess
        viol = []
        files = {"a.md": DOC, "b.md": DOC2}
        if kind == "auto":
            extra = AUTO_EXTRA[i]
            with cli.scenario(files) as d1, cli.scenario(files) as d2:
                c1, o1, e1 = run(["--auto"] + extra + ["a.md"], d1)
                c2, o2, e2 = run(["--inplace", "--nobackup", "--semantic", "--cleanups", "--smartquotes", "--ellipses"] + extra + ["a.md"], d2)
                s1, s2 = cli.snapshot(d1), cli.snapshot(d2)
                if (c1, o1, s1) != (c2, o2, s2):
                    viol.append(("auto:differs-from-expansion", {"extra": extra, "auto": [c1, o1, s1], "expansion": [c2, o2, s2]}))
                # and the expansion really is what the text API gives for those options
                w = int(extra[extra.index("-w") + 1]) if "-w" in extra else 88
                ls = extra[extra.index("--list-spacing") + 1] if "--list-spacing" in extra else "preserve"
                exp = reformat_text(DOC, width=w, plaintext="-p" in extra, semantic=True, cleanups=True, smartquotes=True, ellipses=True, list_spacing=ls)
                if s1.get("a.md") != exp or c1 != 0 or "a.md.orig" in s1:
                    viol.append(("auto:not-the-preset", {"extra": extra, "tree": s1, "expected_a_md": exp, "exit": c1}))
            return Outcome(viol=viol, tags=["auto"])
        argv, stdin = USAGE[i]
        with cli.scenario(files) as d:
            before = cli.snapshot(d)
            c, o, e = run(argv, d, stdin=stdin)
            after = cli.snapshot(d)
            if c == 0:
                viol.append(("usage:exit-zero", {"argv": argv, "stdout": o[:200], "stderr": e[:200]}))
            if before != after:
                viol.append(("usage:tree-modified", {"argv": argv, "before": before, "after": after}))
        return Outcome(viol=viol, tags=["usage-error"])


BYTEDOCS = {
    "bom-heading": b"\xef\xbb\xbf# **Head**\n\ntext   here...\n",
    "bom-frontmatter": b"\xef\xbb\xbf---\ntitle: x\n---\n\nbody   text\n",
    "crlf": b"# H\r\n\r\nsome   text \"q\"...\r\n\r\n- a\r\n- b\r\n",
    "crlf-frontmatter": b"---\r\nt: 1\r\n---\r\n\r\n    a\r\n\r\n    b\r\n",
    "lone-cr": b"one   line\rsecond line\r\rnew para\r",
    "non-ascii": "# Caf\u00e9 \u2014 \u4e2d\u6587abc\n\nna\u00efve   \"q\"\u2026 it's\n".encode("utf8"),
    "no-final-newline": b"text   without newline",
    "already-formatted-crlf": b"# H\r\n\r\ntext\r\n",
    "empty": b"",
    "blank": b"  \n\n",
    "nul-and-controls": b"a\x00b \x0c c\x1fd\n",
}
BYTE_ENTRIES = ["file-stdout", "file-i", "file-i-backup", "file-o", "stdin-stdout", "stdin-o", "auto"]
BYTE_OPTS = [[], ["-s", "-c", "--smartquotes", "--ellipses", "-w", "20"], ["-p"]]


def _decode(b):
    """What a text-mode read of the byte stream yields: UTF-8, universal newlines."""
    return b.decode("utf8").replace("\r\n", "\n").replace("\r", "\n")


class ByteDocs(Space):
    """The command line on byte streams (real subprocess, real pipes): every entry point must give reformat_text(decoded text) encoded
    as UTF-8, whatever the stream starts with (BOM) and whichever line terminators it uses."""

    prop = "C15"
    name = "byte-streams-subprocess"

    def __init__(self):
        self.floors = {"bytes-differ-from-lf-ascii": 50}

    def cases(self):
        for dname in BYTEDOCS:
            for e in BYTE_ENTRIES:
                for oi in range(len(BYTE_OPTS)):
                    if e == "auto" and oi:
                        continue
                    yield (dname, e, oi)

    def describe(self, case):
        return {"document_bytes": repr(BYTEDOCS[case[0]]), "entry": case[1], "argv_options": BYTE_OPTS[case[2]]}

    def smaller(self, case):
        dname, e, oi = case
        if oi:
            yield (dname, e, 0)

    def evaluate(self, case):
        dname, entry, oi = case
        raw = BYTEDOCS[dname]
        av = BYTE_OPTS[oi]
        kw = dict(width=88, plaintext=False, semantic=False, cleanups=False, smartquotes=False, ellipses=False)
        if oi == 1:
            kw = dict(width=20, plaintext=False, semantic=True, cleanups=True, smartquotes=True, ellipses=True)
        elif oi == 2:
            kw["plaintext"] = True
        if entry == "auto":
            kw = dict(width=88, plaintext=False, semantic=True, cleanups=True, smartquotes=True, ellipses=True)
        exp = reformat_text(_decode(raw), **kw).encode("utf8")
        viol = []
        tags = ["bytes-differ-from-lf-ascii"] if (b"\r" in raw or raw[:3] == b"\xef\xbb\xbf" or any(c > 127 for c in raw)) else []

        def bad(what, got):
            viol.append((f"bytes:{entry}:{what}", {"document": repr(raw), "argv_options": av, "got": repr(got), "expected": repr(exp)}))

        with cli.scenario({"a.md": raw}) as d:
            A = os.path.join(d, "a.md")
            rd = lambda p: open(p, "rb").read() if os.path.exists(p) else None
            if entry == "file-stdout":
                c, out, err = cli.run_subprocess_bytes(av + ["a.md"], d)
                if c != 0 or out != exp:
                    bad("output", out)
                if rd(A) != raw:
                    bad("input-touched", rd(A))
            elif entry in ("file-i", "file-i-backup", "auto"):
                argv = ["--auto", "a.md"] if entry == "auto" else av + ["-i"] + ([] if entry == "file-i-backup" else ["--nobackup"]) + ["a.md"]
                c, out, err = cli.run_subprocess_bytes(argv, d)
                if c != 0 or rd(A) != exp:
                    bad("output", rd(A))
                if entry == "file-i-backup" and rd(A + ".orig") != raw:
                    bad("backup-content", rd(A + ".orig"))
            elif entry == "file-o":
                c, out, err = cli.run_subprocess_bytes(av + ["-o", "out.md", "a.md"], d)
                if c != 0 or rd(os.path.join(d, "out.md")) != exp:
                    bad("output", rd(os.path.join(d, "out.md")))
            elif entry == "stdin-stdout":
                c, out, err = cli.run_subprocess_bytes(av + ["-"], d, stdin=raw)
                if c != 0 or out != exp:
                    bad("output", out)
            elif entry == "stdin-o":
                c, out, err = cli.run_subprocess_bytes(av + ["-o", "out.md", "-"], d, stdin=raw)
                if c != 0 or rd(os.path.join(d, "out.md")) != exp:
                    bad("output", rd(os.path.join(d, "out.md")))
        return Outcome(viol=viol, tags=tags, obs=hash((exp, entry)))


def spaces(tier):
    probs = check_discriminating()
    if probs:
        raise SystemExit(f"HARNESS ERROR: the C15 document does not discriminate option(s) {probs} (vacuous)")
    return [Entry(tier, "inproc"), Entry(tier, "subprocess"), AutoAndUsage("inproc"), AutoAndUsage("subprocess"), ByteDocs()]

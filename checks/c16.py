"""C16 — configuration precedence: explicit flag over config file over default.

For each of the 13 settings and for every pair of settings: flag state x config state x --auto x config
kind (file name, flat/sectioned, kebab/snake) x location (cwd, parent, shadowing, two kinds in one
directory, pyproject without table + real config above).  Observed: the keyword arguments reaching
reformat_files and the FileResolverConfig reaching FileResolver (both intercepted in-process), compared
with a 10-line precedence model; plus an end-to-end "every accepted key has an effect" check and an
"unknown key warns and has no effect" check.
"""
from __future__ import annotations

import itertools
import os

from vf import cli, core
from vf.explorer import Outcome, Space

core.bind()
import flowmark.cli as fcli  # noqa: E402
import flowmark.file_resolver as fres  # noqa: E402

LEVEL = "exploration"
RULE = ("complete product per setting (flag state x config state x auto x config kind x location) and for every pair of settings (flag "
        "states x config states x auto x 3 kinds x 2 locations); a case is non-trivial when at least one of flag / config / auto departs "
        "from the default")
ASSUMPTIONS = ["the precedence model: flag if given, else preset if --auto locks the setting, else nearest config value, else default",
               "observation by replacing flowmark.cli.reformat_files and flowmark.file_resolver.FileResolver with recording wrappers inside the harness process"]

DOC = "# **H**\n\nFirst sentence is here now. It's \"q\"... a b c d e f g h i j k l m n o p q r s t u v w x y z a b c d e f g h i j k l m n o p q r s t u v w x y z a b c.\n\n- a\n- b\n"

# name -> default, flag variants [(argv, value)], config values, config key (kebab), kind
S = {
    "width": dict(default=88, flags=[(["-w", "88"], 88), (["-w", "40"], 40)], cfgs=[33], key="width", kind="fmt"),
    "semantic": dict(default=False, flags=[(["-s"], True)], cfgs=[True, False], key="semantic", kind="fmt", locked=True),
    "cleanups": dict(default=False, flags=[(["-c"], True)], cfgs=[True, False], key="cleanups", kind="fmt", locked=True),
    "smartquotes": dict(default=False, flags=[(["--smartquotes"], True)], cfgs=[True, False], key="smartquotes", kind="fmt", locked=True),
    "ellipses": dict(default=False, flags=[(["--ellipses"], True)], cfgs=[True, False], key="ellipses", kind="fmt", locked=True),
    "list_spacing": dict(default="preserve", flags=[(["--list-spacing", "preserve"], "preserve"), (["--list-spacing", "loose"], "loose")],
                         cfgs=["tight"], key="list-spacing", kind="fmt"),
    "include": dict(default=["*.md"], flags=[], cfgs=[["*.mdx"]], key="include", kind="disc"),
    "extend_include": dict(default=[], flags=[(["--extend-include", "*.mdx"], ["*.mdx"])], cfgs=[["*.txt"]], key="extend-include", kind="disc"),
    "exclude": dict(default=None, flags=[(["--exclude", "drafts/"], ["drafts/"])], cfgs=[["other/"]], key="exclude", kind="disc"),
    "extend_exclude": dict(default=[], flags=[(["--extend-exclude", "drafts/"], ["drafts/"])], cfgs=[["other/"]], key="extend-exclude", kind="disc"),
    "files_max_size": dict(default=1048576, flags=[(["--files-max-size", "1048576"], 1048576), (["--files-max-size", "100"], 100)], cfgs=[77, 0],
                           key="files-max-size", kind="disc"),
    "respect_gitignore": dict(default=True, flags=[(["--no-respect-gitignore"], False)], cfgs=[False, True], key="respect-gitignore", kind="disc"),
    "force_exclude": dict(default=False, flags=[(["--force-exclude"], True)], cfgs=[True, False], key="force-exclude", kind="disc"),
}
# Other spellings of the same flags that the real argument parser accepts (single-setting space only): short-option clusters with an
# untracked letter before / after, glued values, `=` forms and unambiguous abbreviations.  "The flag was passed" does not depend on spelling.
SPELLINGS = {
    "width": [(["-w40"], 40), (["--width=88"], 88), (["-iw40"], 40), (["--wid", "40"], 40), (["-iw", "88"], 88),
              (["-w", "0"], 0), (["--width", "-1"], -1)],      # values that are falsy / negative are still values the user typed
    "semantic": [(["-is"], True), (["-si"], True), (["--sem"], True), (["-ps"], True)],
    "cleanups": [(["-ic"], True), (["-ci"], True), (["--clean"], True)],
    "smartquotes": [(["--smartq"], True)],
    "ellipses": [(["--ellip"], True)],
    "list_spacing": [(["--list-spacing=loose"], "loose"), (["--list-sp", "preserve"], "preserve")],
    "extend_include": [(["--extend-include=*.mdx"], ["*.mdx"]), (["--extend-inc", "*.mdx"], ["*.mdx"])],
    "exclude": [(["--exclude=drafts/"], ["drafts/"]), (["--exclu", "drafts/"], ["drafts/"])],
    "extend_exclude": [(["--extend-exc", "drafts/"], ["drafts/"])],
    "files_max_size": [(["--files-max-size=100"], 100), (["--files-max", "1048576"], 1048576), (["--files-max-size", "0"], 0)],
    "respect_gitignore": [(["--no-respect"], False)],
    "force_exclude": [(["--force-ex"], True)],
}
for _n, _sp in SPELLINGS.items():
    S[_n]["nbase"] = len(S[_n]["flags"])
    S[_n]["flags"] = S[_n]["flags"] + _sp
NAMES = list(S)
SECTION = {"fmt": "formatting", "disc": "file-discovery"}
KINDS = [(fn, sect, snake) for fn in (".flowmark.toml", "flowmark.toml", "pyproject.toml") for sect in (False, True) for snake in (False, True)]
LOCS = ["cwd", "parent", "shadow", "two-kinds", "pyproject-no-table-below", "nearer-lower-rank",
        # appended later: the nearest config is a pyproject.toml whose [tool.flowmark] table exists but is empty (or holds only an empty
        # sub-table): it IS the nearest config, so the values of the file further up must not apply
        "empty-table-nearer", "empty-subtable-nearer"]
LOSING_LOCS = ("empty-table-nearer", "empty-subtable-nearer")


def toml_value(v):
    if isinstance(v, bool):
        return "true" if v else "false"
    if isinstance(v, int):
        return str(v)
    if isinstance(v, str):
        return '"%s"' % v
    return "[" + ", ".join('"%s"' % x for x in v) + "]"


def config_text(values, filename, sectioned, snake):
    """values: {setting name: value}"""
    lines = []
    pre = "tool.flowmark" if filename == "pyproject.toml" else ""
    if not sectioned:
        if pre:
            lines.append(f"[{pre}]")
        for n, v in values.items():
            k = n if snake else S[n]["key"]
            lines.append(f"{k} = {toml_value(v)}")
    else:
        for kind in ("fmt", "disc"):
            sub = {n: v for n, v in values.items() if S[n]["kind"] == kind}
            if not sub:
                continue
            lines.append("[" + (pre + "." if pre else "") + SECTION[kind] + "]")
            for n, v in sub.items():
                k = n if snake else S[n]["key"]
                lines.append(f"{k} = {toml_value(v)}")
        if pre and not any(S[n]["kind"] for n in values):
            lines.append(f"[{pre}]")
    if filename == "pyproject.toml" and not values:
        lines.append("[tool.flowmark]")
    return "\n".join(lines) + "\n"


def decoy_values(values):
    """Different (wrong) values for the same keys, used for the config that must lose."""
    out = {}
    for n, v in values.items():
        if isinstance(v, bool):
            out[n] = not v
        elif isinstance(v, int):
            out[n] = v + 5
        elif isinstance(v, str):
            out[n] = "loose" if v != "loose" else "tight"
        else:
            out[n] = ["decoy/"]
    return out


def build_tree(values, kind, loc):
    """-> (files dict, cwd relative path).  `values` = config values that must WIN."""
    fn, sect, snake = kind
    win = config_text(values, fn, sect, snake)
    files = {}
    cwd = "proj"
    if loc == "cwd":
        files[f"proj/{fn}"] = win
    elif loc == "parent":
        files[fn] = win
    elif loc == "shadow":
        files[f"proj/{fn}"] = win
        files[fn] = config_text(decoy_values(values), fn, sect, snake)
    elif loc == "two-kinds":
        # a lower-ranked file name in the same directory holds decoy values
        order = [".flowmark.toml", "flowmark.toml", "pyproject.toml"]
        lower = [x for x in order[order.index(fn) + 1:]]
        files[f"proj/{fn}"] = win
        for lf in lower:
            files[f"proj/{lf}"] = config_text(decoy_values(values), lf, sect, snake)
        if not lower:  # pyproject is lowest: put the decoy in the parent instead
            files["pyproject.toml"] = config_text(decoy_values(values), "pyproject.toml", sect, snake)
    elif loc == "nearer-lower-rank":
        # the nearest config wins even if a directory further up holds a file with a higher-ranked name
        order = [".flowmark.toml", "flowmark.toml", "pyproject.toml"]
        files[f"proj/{fn}"] = win
        for hf in order[:order.index(fn)] or [fn]:
            files[hf] = config_text(decoy_values(values), hf, sect, snake)
    elif loc in LOSING_LOCS:
        files["proj/pyproject.toml"] = "[tool.flowmark]\n" if loc == "empty-table-nearer" else "[tool.other]\nx = 1\n\n[tool.flowmark.formatting]\n"
        files[fn] = win   # here `values` are the ones that must LOSE
    elif loc == "pyproject-no-table-below":
        files["proj/pyproject.toml"] = '[tool.other]\nwidth = 1\n'
        files[fn] = win
    files.update({"proj/a.md": DOC, "proj/b.mdx": "x\n", "proj/c.txt": "y\n", "proj/drafts/d.md": "z\n", "proj/other/e.md": "w\n",
                  "proj/big.md": "b" * 90 + "\n"})
    return files, cwd


def observe(argv, files, cwd):
    """Run main(argv) in-process with recording wrappers; returns (code, stderr, fmt kwargs, resolver config fields)."""
    rec = {"fmt": None, "disc": None}
    orig_rf, orig_FR = fcli.reformat_files, fres.FileResolver

    def fake_rf(**kw):
        rec["fmt"] = kw

    class RecFR(orig_FR):
        def __init__(self, config):
            rec["disc"] = {k: getattr(config, k) for k in ("include", "extend_include", "exclude", "extend_exclude", "files_max_size",
                                                           "respect_gitignore", "force_exclude")}
            super().__init__(config)

    fcli.reformat_files = fake_rf
    fres.FileResolver = RecFR
    try:
        with cli.scenario(files) as d:
            code, out, err = cli.run_inproc(argv, os.path.join(d, cwd))
    finally:
        fcli.reformat_files, fres.FileResolver = orig_rf, orig_FR
    return code, err, rec["fmt"], rec["disc"]


def expected(name, flag_val, cfg_val, auto):
    s = S[name]
    if flag_val is not _ABSENT:
        return flag_val
    if auto and s.get("locked"):
        return True
    if cfg_val is not _ABSENT:
        return cfg_val
    return s["default"]


_ABSENT = object()


def norm(v):
    v = getattr(v, "value", v)
    return list(v) if isinstance(v, (list, tuple)) else v


class Precedence(Space):
    prop = "C16"

    def __init__(self, name, pairs, tier):
        self.name = name
        self.pairs = pairs
        self.tier = tier
        self.floors = {"flag-and-config-both-set": 50, "config-only": 50}

    def _states(self, n):
        s = S[n]
        flags = [None] + list(range(len(s["flags"]) if not self.pairs else s.get("nbase", len(s["flags"]))))
        cfgs = [None] + list(range(len(s["cfgs"])))
        return flags, cfgs

    def cases(self):
        if not self.pairs:
            for n in NAMES:
                flags, cfgs = self._states(n)
                for f in flags:
                    for c in cfgs:
                        for auto in (False, True):
                            if c is None:
                                yield ((n,), (f,), (c,), auto, 0, 0)
                            else:
                                for k in range(len(KINDS)):
                                    for l in range(len(LOCS)):
                                        yield ((n,), (f,), (c,), auto, k, l)
        else:
            for a, b in itertools.combinations(NAMES, 2):
                fa, ca = self._states(a)
                fb, cb = self._states(b)
                for f1 in fa:
                    for f2 in fb:
                        for c1 in ca:
                            for c2 in cb:
                                for auto in (False, True):
                                    if c1 is None and c2 is None:
                                        yield ((a, b), (f1, f2), (c1, c2), auto, 0, 0)
                                    else:
                                        # quick: one flat-kebab, one sectioned-snake, one pyproject x cwd, shadow; thorough: everything
                                        for k in ((0, 3, 9) if self.tier == "quick" else range(len(KINDS))):
                                            for l in ((0, 2, 5) if self.tier == "quick" else range(len(LOCS))):
                                                yield ((a, b), (f1, f2), (c1, c2), auto, k, l)

    def describe(self, case):
        names, fs, cs, auto, k, l = case
        argv, values = self._argv_values(case)
        return {"argv": argv, "config_values": {n: v for n, v in values.items()}, "config_kind": KINDS[k], "location": LOCS[l]}

    def _argv_values(self, case):
        names, fs, cs, auto, k, l = case
        argv = ["--auto"] if auto else ["-i", "--nobackup"]
        values = {}
        for n, f, c in zip(names, fs, cs):
            if f is not None:
                argv += S[n]["flags"][f][0]
            if c is not None:
                values[n] = S[n]["cfgs"][c]
        return argv + ["."], values

    def smaller(self, case):
        names, fs, cs, auto, k, l = case
        if len(names) == 2:
            for i in (0, 1):
                j = 1 - i
                yield ((names[j],), (fs[j],), (cs[j],), auto, k, l)
        if auto:
            yield (names, fs, cs, False, k, l)
        if l:
            yield (names, fs, cs, auto, k, 0)
        if k:
            yield (names, fs, cs, auto, 0, l)
        for i in range(len(names)):
            if fs[i] is not None:
                yield (names, fs[:i] + (None,) + fs[i + 1:], cs, auto, k, l)
            if cs[i] is not None and any(c is not None for j, c in enumerate(cs) if j != i):
                yield (names, fs, cs[:i] + (None,) + cs[i + 1:], auto, k, l)

    def evaluate(self, case):
        names, fs, cs, auto, k, l = case
        argv, values = self._argv_values(case)
        if values:
            files, cwd = build_tree(values, KINDS[k], LOCS[l])
        else:
            files, cwd = build_tree({}, KINDS[0], "cwd")
            files.pop("proj/.flowmark.toml", None)
        code, err, fmt, disc = observe(argv, files, cwd)
        viol, tags = [], []
        if any(f is not None for f in fs) and any(c is not None for c in cs):
            tags.append("flag-and-config-both-set")
        if all(f is None for f in fs) and any(c is not None for c in cs):
            tags.append("config-only")
        if auto:
            tags.append("auto")
        if code != 0 or fmt is None or disc is None:
            viol.append(("run-failed", {"argv": argv, "exit": code, "stderr": err[-300:], "config": values}))
            return Outcome(viol=viol, tags=tags)
        if "Warning" in err:
            viol.append(("unexpected-warning", {"argv": argv, "stderr": err[-300:], "config": values}))
        # every setting is compared, not only the ones under test (cross-talk)
        for n in NAMES:
            if n in names:
                i = names.index(n)
                fv = S[n]["flags"][fs[i]][1] if fs[i] is not None else _ABSENT
                cv = S[n]["cfgs"][cs[i]] if cs[i] is not None and LOCS[l] not in LOSING_LOCS else _ABSENT
            else:
                fv = cv = _ABSENT
            exp = expected(n, fv, cv, auto)
            got = norm((fmt if S[n]["kind"] == "fmt" else disc)[n])
            if got != norm(exp):
                which = "under-test" if n in names else "cross-talk"
                viol.append((f"{which}:{n}", {"argv": argv, "config": values, "config_kind": KINDS[k], "location": LOCS[l], "setting": n,
                                              "expected": norm(exp), "observed": got}))
        if auto and (fmt.get("inplace") is not True or fmt.get("nobackup") is not True):
            viol.append(("auto:inplace-nobackup", {"argv": argv, "kwargs": {kk: str(v) for kk, v in fmt.items()}}))
        seen = {}
        for s_, d in viol:
            seen.setdefault(s_, d)
        return Outcome(viol=list(seen.items()), tags=tags)


class Effects(Space):
    """End to end: every key a config file accepts without warning changes behaviour for some pair of values; an unknown key warns
    and changes nothing."""

    prop = "C16"
    name = "key-effects"
    PAIRS = {
        "width": (20, 60), "semantic": (True, False), "cleanups": (True, False), "smartquotes": (True, False), "ellipses": (True, False),
        "list_spacing": ("loose", "tight"), "include": (["*.md"], ["*.mdx"]), "extend_include": ([], ["*.mdx"]), "exclude": (["drafts/"], ["other/"]),
        "extend_exclude": ([], ["drafts/"]), "files_max_size": (50, 0), "respect_gitignore": (True, False), "force_exclude": (True, False),
    }

    def __init__(self):
        self.floors = {"accepted-key": 13}

    def cases(self):
        for n in NAMES:
            yield ("effect", n)
        yield ("unknown", "bogus-key")
        yield ("unknown", "widht")

    def describe(self, case):
        return {"kind": case[0], "key": case[1]}

    def _run(self, cfg_text, argv):
        files = {"proj/.flowmark.toml": cfg_text, "proj/a.md": DOC, "proj/b.mdx": "x y\n", "proj/drafts/d.md": "z\n", "proj/other/e.md": "w\n",
                 "proj/big.md": "b" * 90 + "\n", "proj/.gitignore": "ign.md\n", "proj/ign.md": "i\n", "proj/node_modules/n.md": "n\n"}
        with cli.scenario(files) as d:
            code, out, err = cli.run_inproc(argv, os.path.join(d, "proj"))
            snap = cli.snapshot(os.path.join(d, "proj"))
            out = out.replace(os.path.realpath(d), "<D>").replace(d, "<D>")
        return code, out, err, snap

    def evaluate(self, case):
        kind, n = case
        viol = []
        if kind == "unknown":
            base = self._run("", ["--list-files", "."])
            r = self._run(f"{n} = 1\n", ["--list-files", "."])
            if "nrecognized" not in r[2]:
                viol.append(("unknown-key:no-warning", {"key": n, "stderr": r[2]}))
            if (r[0], r[1]) != (base[0], base[1]):
                viol.append(("unknown-key:has-effect", {"key": n}))
            return Outcome(viol=viol, tags=["unknown-key"])
        v1, v2 = self.PAIRS[n]
        outs = []
        for v in (v1, v2):
            cfg = f"{S[n]['key']} = {toml_value(v)}\n"
            if S[n]["kind"] == "fmt":
                r = self._run(cfg, ["a.md"])
                outs.append((r[0], r[1], r[2]))
            else:
                argv = ["--list-files", ".", "node_modules/n.md"] if n == "force_exclude" else ["--list-files", "."]
                r = self._run(cfg, argv)
                outs.append((r[0], r[1], r[2]))
        tags = []
        if not any("Warning" in o[2] for o in outs):
            tags.append("accepted-key")
            if outs[0][:2] == outs[1][:2]:
                viol.append(("accepted-key-without-effect", {"key": S[n]["key"], "values": [v1, v2], "stdout": outs[0][1][:300]}))
        return Outcome(viol=viol, tags=tags)


def spaces(tier):
    return [Precedence("single-setting", False, tier), Precedence("pairs", True, tier), Effects()]

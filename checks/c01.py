"""C01 — formatting preserves the meaning of the document.

Oracle: Reader A (flowmark's own reader) on the output equals Reader A on the input; where the
independent Reader B (markdown-it-py) agrees with A on the input, Reader B on the output must equal
Reader B on the input too.  Explored: hazard paragraphs (every block-syntax look-alike token at every
position, every critical width so that each token lands at a line start), inline constructs across
wrap points, and small multi-block documents in container contexts.
Options are those the property quantifies over: cleanups off, typography off, list_spacing=preserve.
"""
from __future__ import annotations

import functools
import re
import textwrap

from vf import core, docspace, readers
from vf.blockspace import BLOCKS, BlockSpace, UnusualSpace
from vf.explorer import Outcome
from vf.paraspace import ParaSpace

core.bind()
from flowmark import reformat_text  # noqa: E402
from flowmark.formats.frontmatter import split_frontmatter  # noqa: E402
from flowmark.linewrapping.tag_handling import preprocess_tag_block_spacing  # noqa: E402

LEVEL = "exploration"
RULE = ("complete enumeration of token sequences x separators x container contexts x critical widths x both line-break "
        "modes (hazard and inline spaces) and of block sequences x joins x contexts x widths x modes (block space); a case "
        "is non-trivial when the formatter's output differs from the input text or the paragraph was wrapped onto >= 2 lines; "
        "cases are distinct by construction (enumeration without repetition)")
ASSUMPTIONS = [
    "Reader A = flowmark_markdown().parse is the reading the property refers to; Reader B (markdown-it-py 4.2) is consulted only "
    "where it agrees with Reader A on the input",
    "inputs are dedent/strip-normal, so the formatter's deliberate dedent().strip() is the identity",
    "inputs rewritten by preprocess_tag_block_spacing (tag-only line touching a list/table line) are owned by C06(iv)",
]

HAZ = ["aa", "Bb.", "a", "cccccccccc",
       "-", "+", "*", "1.", "1)", "2.", "10.", "#", "##", "#######", ">", ">x", ">=", "=", "==", "---", "--", "***", "___",
       "```", "```x", "~~~", "|", "|x|", "[x]:", "[^x]:", "<div>", "<!--", "[", "]", "\\-", "1\\.", "\\#", "&amp;", "\\",
       # appended later: words ending in runs of 2, 3 and 5 backslashes (an odd run at a wrapped line end would read as a hard break)
       "a\\\\", "a\\\\\\", "a\\\\\\\\\\"]
HAZ_REPS = [HAZ.index(t) for t in ("aa", "Bb.", "-", "1.", "1)", "#", ">", ">x", "=", "---", "***", "___", "```", "~~~", "|",
                                   "[x]:", "<div>", "\\-", "cccccccccc")]

INL = ["aa", "Bb.", "`c d`", "`` `x` ``", "[l k](u)", '[l](<u v> "t")', "[l][r]", "[r]", "![i](u 't')", "<http://u>",
       "http://u.v/w_x", "www.u.v", "<b>", "</b>", '<a href="x y">', "*e*", "**s**", "***b***", "_e_", "~~d~~", "~x~", "*e", "f*",
       "**g", "h**", "&amp;", "\\*", "x[^n]", "[l", "k](u)", "`c", "d`",
       # appended later: legal but unusual spellings (CDATA sections and processing instructions were tried and left out: wrapped to a
       # line start they open an HTML block for CommonMark readers, the K-htmlblock finding, once per partner token)
       "[a](<>)", "[a]()", "[a][]", "[![i](u)](v)", "[a\\]b](u)", "<HTTP://U.V>", "a@b.cc", "mailto:a@b.cc", "&#x41;", "&nbsp;", "<br/>",
       "**a*b*c**", "*a**b**c*", "`` ` ``", "[ ]", "www.a.b/c_d.", "http://a.b/c)", "**\u4e2d\u6587**abc",
       # appended later: angle-bracket destinations that do not look like an HTML tag, parentheses in the destination, a title
       "[l](<../u v/w.md>)", "![i](<./a b> 't u')", "[l](http://u.v/w_(x) \"t u\")", "[l k](<#a b>)"]
INL_REPS = [INL.index(t) for t in ("aa", "Bb.", "`c d`", "[l k](u)", "[l][r]", "<http://u>", "www.u.v", "<b>", "*e", "f*", "**s**",
                                   "~~d~~", "\\*", "[l", "k](u)")]


def fmt(text, width, sem):
    return reformat_text(text, width=width, semantic=sem, cleanups=False, smartquotes=False, ellipses=False)


BLOCK_LABELS = {"P", "H", "CODE", "HR", "DEF", "ALERT", "QUOTE", "LIST", "ITEM", "FNDEF", "TABLE", "ROW", "CELL", "HTMLBLOCK", "DOC"}


def coarse(d):
    """Signature category of a first difference: a structural change (a block or inline node lost, gained or
    turned into another kind), changed text, or the attribute that differs.  The exact pair is in the detail."""
    if "→" in d:
        return "struct"
    if d == "T.s":
        return "text"
    return "attr:" + d


_CONT = re.compile(r"^[ >]*")
_MARKER = re.compile(r"^(?:[-*+] |\d+[.)] |\[\^\w+\]: )")
_TAGLINE = re.compile(r"^(\{%|\{#|\{\{|<!--)|(%\}|#\}|\}\}|-->)$")
_BLOCKISH = re.compile(r"^([-*+]|\d{1,9}[.)])[ \t]|^\|")


@functools.lru_cache(maxsize=2048)
def tag_touches_block(text):
    """A line that starts or ends with a template tag / HTML comment (modulo container prefixes and one list
    marker) directly next to a line that looks like a list item or a table row: flowmark deliberately reads
    these as tag + block (property C06(iv)), whatever CommonMark says."""
    lines = [_CONT.sub("", ln) for ln in text.split("\n")]

    def tag(ln):
        ln = ln.strip()
        return bool(_TAGLINE.search(ln) or _TAGLINE.search(_MARKER.sub("", ln)))

    for a, b in zip(lines, lines[1:]):
        if (tag(a) and _BLOCKISH.match(b)) or (_BLOCKISH.match(a) and tag(b)):
            return True
    return False


@functools.lru_cache(maxsize=2048)
def strip_normal(text):
    return textwrap.dedent(text).strip() + "\n" == text


def oracle(space, case, text, width, sem):
    if preprocess_tag_block_spacing(text) != text or tag_touches_block(text) or not strip_normal(text) or split_frontmatter(text)[0]:
        return Outcome()  # owned by C06(iv) / not dedent-normal / begins with frontmatter (C07)
    out = fmt(text, width, sem)
    tags = []
    if out != text:
        tags.append("output-differs")
    if out.count("\n") > text.count("\n"):
        tags.append("lines-added")
    viol = []
    # list tightness is compared by C10 ("preserve keeps every list as authored"), not here
    ta = readers.drop_attr(readers.norm_a(text), "tight")
    oa = readers.drop_attr(readers.norm_a(out), "tight")
    d = readers.first_diff(ta, oa)
    if d:
        sig = "A:" + coarse(d)
        if sem and readers.first_diff(ta, readers.drop_attr(readers.norm_a(fmt(text, width, False)), "tight")) is None:
            sig = "A:sem-only"  # the same input and width are fine in fill mode: the sentence wrapper is responsible
        viol.append((sig, {"diff": d, "input": text, "output": out, "width": width, "semantic": sem}))
    if readers.readers_agree(text):
        tags.append("reader-b-consulted")
        d2 = readers.first_diff(readers.drop_attr(readers.norm_b(text), "tight"), readers.drop_attr(readers.norm_b(out), "tight"))
        if d2 and not d:
            viol.append(("B:" + coarse(d2), {"diff": d2, "input": text, "output": out, "width": width, "semantic": sem}))
    return Outcome(viol=viol, tags=tags, obs=hash(out))


def _valid_inl(toks, seps):
    return True


def spaces(tier):
    q = tier == "quick"
    ctx_para = docspace.contexts(1, ("ul", "ol10", "bq", "fnlong"), (None,))
    ctx_deep = docspace.contexts(2, ("ul", "ol10", "bq", "fnlong"), (None,))
    ctx_blk = docspace.contexts(1, ("ul", "ol", "bq", "fn"), (None, "p")) if not q else docspace.contexts(1, ("ul", "bq", "fn"), (None,))
    ParaSpace.hazard_rep = None
    haz = ParaSpace("C01", "hazard", HAZ, 2 if q else 3, oracle, ctx_para, sepnames=("sp", "nl", "hb"), full_upto=2,
                    reps=HAZ_REPS, lead="zz ", floors={"lines-added": 1000, "reader-b-consulted": 1000}, max_special_seps=1)
    haz0 = ParaSpace("C01", "hazard-at-start", HAZ, 2, oracle, docspace.contexts(1, ("ul", "bq"), (None,)), sepnames=("sp", "nl"),
                     full_upto=2, lead="", floors={"output-differs": 100})
    inl = ParaSpace("C01", "inline", INL, 2 if q else 3, oracle, docspace.contexts(0 if q else 1, ("ul", "bq"), (None,)),
                    sepnames=("sp", "nl", "hb"), full_upto=2, reps=INL_REPS, lead="zz ", floors={"lines-added": 500},
                    max_special_seps=1)
    blk = BlockSpace("C01", "blocks", oracle, ctx_blk, 2 if q else 3, (88, 3, 0), modes=(False, True) if not q else (False,),
                     full_upto=2, reps=[i for i, (n, _) in enumerate(BLOCKS) if n in (
                         "p", "h1", "setext2", "ul", "ul-loose", "ol2", "ul-nested", "ul-2p", "bq", "code", "code-indented", "table",
                         "hr-", "def-title", "fn-cont", "tag")], floors={"output-differs": 1000})
    haz.hazard_rep = haz0.hazard_rep = HAZ.index("-")
    unusual = UnusualSpace("C01", "blocks-unusual", oracle, ctx_blk, (88, 3, 0), modes=(False, True) if not q else (False,),
                           floors={"output-differs": 1000})
    if not q:
        deep = ParaSpace("C01", "hazard-deep", HAZ, 2, oracle, ctx_deep, sepnames=("sp", "nl", "hb"), full_upto=2, lead="zz ",
                         max_special_seps=1)
        deep.hazard_rep = haz.hazard_rep
        return [haz, haz0, inl, blk, deep, unusual]
    return [haz, haz0, inl, blk, unusual]

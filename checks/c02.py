"""C02 — formatting is idempotent: fmt(fmt(x, o), o) == fmt(x, o), byte for byte.

Explored: paragraphs over a mixed alphabet (block-syntax look-alikes, inline constructs, typography
tokens, template tags) x separators x container contexts x critical widths x both line-break modes,
small multi-block documents, and plaintext mode; each case is evaluated under a set of
cleanups/smartquotes/ellipses/list-spacing combinations (all 24 in the thorough tier).
"""
from __future__ import annotations

import itertools

from vf import core, docspace, readers
from vf.blockspace import BLOCKS, BlockSpace, UnusualSpace
from vf.explorer import Outcome, Space
from vf.paraspace import ParaSpace

core.bind()
from flowmark import reformat_text  # noqa: E402
from flowmark.formats.flowmark_markdown import ListSpacing  # noqa: E402
from flowmark.typography.ellipses import ellipses  # noqa: E402
from flowmark.typography.smartquotes import smart_quotes  # noqa: E402

LEVEL = "exploration"
RULE = ("complete enumeration of token sequences x separators x contexts x critical widths x modes, of block sequences, and of "
        "plaintext word/paragraph layouts; every case is formatted twice under each option combination of the tier; a case is "
        "non-trivial when pass 1 changed the input (so pass 2 sees text the formatter itself produced and not the author's)")
ASSUMPTIONS = ["option combinations per case: quick = 3 covering combinations of cleanups/smartquotes/ellipses/list-spacing, "
               "thorough = all 24; width and line-break mode are part of the enumerated case"]

MIX = ["aa", "Bb.", "a", "cccccccccc",
       "-", "1.", "#", ">", ">x", "=", "---", "***", "```", "|", "[x]:", "\\-", "1\\.", "\\",
       "`c d`", "[l k](u)", "[l][r]", "<http://u>", "www.u.v", "<b>", "*e", "f*", "**s**", "~~d~~", "&amp;",
       "'", '"', "it's", '"q', 'q"', "...", "a...b", "....", "…",
       "{% t %}", "{% /t %}", "{{ v }}", "<!-- c -->", "{% t %}{% /t %}", '{% t a="x y" %}',
       # appended later: runs that look like the delimiter row of a table (escaped by the wrapper AFTER the width check)
       "| - | - |", "|-|"]
MIX_REPS = [MIX.index(t) for t in ("aa", "Bb.", "-", "#", "=", "`c d`", "[l k](u)", "*e", "f*", '"q', 'q"', "...", "{% t %}",
                                   "{% /t %}", "<!-- c -->")]

LS = [ListSpacing.preserve, ListSpacing.loose, ListSpacing.tight]


def optsets(tier):
    full = [(c, sq, el, ls) for c in (False, True) for sq in (False, True) for el in (False, True) for ls in range(3)]
    if tier == "thorough":
        return full
    return [(False, False, False, 0), (True, True, True, 1), (True, False, False, 2)]


def classify(a, b):
    """Signature class of a pass-2 difference."""
    ta, tb = readers.norm_a(a), readers.norm_a(b)
    d = readers.first_diff(ta, tb)
    if d is None:
        return "layout"
    if "→" in d:
        return "struct"
    if d == "T.s":
        return "text"
    return "attr:" + d


def make_oracle(tier):
    opts = optsets(tier)

    # three-token paragraphs (thorough tier) run under six option sets (all off, all on, each option alone), shorter ones under all
    small = [o for o in opts if o in ((False, False, False, 0), (True, True, True, 1), (True, False, False, 2), (False, True, False, 0),
                                      (False, False, True, 0), (False, True, True, 2))]

    def oracle(space, case, text, width, sem):
        viol, tags = [], []
        seen = set()
        use = small if (len(opts) > 6 and isinstance(case[1], tuple) and len(case[1]) >= 3) else opts
        for (c, sq, el, ls) in use:
            kw = dict(width=width, semantic=sem, cleanups=c, smartquotes=sq, ellipses=el, list_spacing=LS[ls])
            o1 = reformat_text(text, **kw)
            if o1 != text:
                tags.append("pass1-changed")
            o2 = reformat_text(o1, **kw)
            if o2 != o1:
                sig = "pass2:" + classify(o1, o2)
                if sem and reformat_text(reformat_text(text, **{**kw, "semantic": False}), **{**kw, "semantic": False}) == \
                        reformat_text(text, **{**kw, "semantic": False}):
                    sig += ":sem-only"
                if sig not in seen:
                    seen.add(sig)
                    viol.append((sig, {"input": text, "options": {k: str(v) for k, v in kw.items()}, "pass1": o1, "pass2": o2}))
        return Outcome(viol=viol, tags=sorted(set(tags)), obs=None)

    return oracle


class Plain(Space):
    """reformat_text(plaintext=True): words of several lengths, 1-2 paragraphs, indented / multi-space layouts."""

    prop = "C02"
    name = "plaintext"
    WORDS = ["aa", "b", "cccccccc", "-", "1.", "`x y`", "<b>", "{% t %}", "dd."]

    def __init__(self, maxn, widths):
        self.maxn, self.widths = maxn, widths
        self.floors = {"pass1-changed": 100}

    def cases(self):
        for n in range(1, self.maxn + 1):
            for ks in itertools.product(range(len(self.WORDS)), repeat=n):
                # (the last three were appended later: a whitespace-only line between blank lines, a tab, three newlines)
                for seps in itertools.product((" ", "  ", "\n", "\n\n", "\n  ", "\n\n \n\n", "\t", "\n\n\n"), repeat=n - 1):
                    for w in self.widths:
                        yield (ks, seps, w)

    def text(self, case):
        ks, seps, w = case
        out = self.WORDS[ks[0]]
        for k, s in zip(ks[1:], seps):
            out += s + self.WORDS[k]
        return out

    def describe(self, case):
        return {"text": self.text(case), "width": case[2], "plaintext": True}

    def smaller(self, case):
        ks, seps, w = case
        for i in range(len(ks)):
            if len(ks) > 1:
                yield (ks[:i] + ks[i + 1:], seps[:i] + seps[i + 1:] if i < len(seps) else seps[:-1], w)
        for i in range(len(ks)):
            if ks[i]:
                yield (ks[:i] + (0,) + ks[i + 1:], seps, w)
        for i in range(len(seps)):
            if seps[i] != " ":
                yield (ks, seps[:i] + (" ",) + seps[i + 1:], w)
        if w > 1:
            yield (ks, seps, w - 1)

    def evaluate(self, case):
        t = self.text(case)
        o1 = reformat_text(t, width=case[2], plaintext=True)
        o2 = reformat_text(o1, width=case[2], plaintext=True)
        viol = []
        if o1 != o2:
            viol.append(("pass2:plaintext", {"input": t, "width": case[2], "pass1": o1, "pass2": o2}))
        return Outcome(viol=viol, tags=["pass1-changed"] if o1 != t else [], obs=hash(o1))


def _class_reps():
    rep = {}
    tag = MIX.index("{% t %}")
    for t in ("{% /t %}", "{{ v }}", "<!-- c -->", "{% t %}{% /t %}", '{% t a="x y" %}'):
        rep[MIX.index(t)] = tag
    dots = MIX.index("...")
    for t in ("a...b", "....", "…"):
        rep[MIX.index(t)] = dots
    quote = MIX.index("'")
    for t in ('"', "it's", '"q', 'q"'):
        rep[MIX.index(t)] = quote
    pipe = MIX.index("|")
    for t in ("| - | - |", "|-|"):
        rep[MIX.index(t)] = pipe
    code = MIX.index("`c d`")
    for t in ("[l k](u)", "[l][r]", "<http://u>", "www.u.v", "<b>", "**s**", "~~d~~"):
        rep[MIX.index(t)] = code
    return rep


class TypoFn(Space):
    """Function level: smart_quotes and ellipses are idempotent on EVERY string up to a length bound."""

    prop = "C02"
    name = "typo-fn"
    SYM = ("'", '"', "a", " ", ".", "s")

    def __init__(self, maxlen):
        self.maxlen = maxlen
        self.floors = {"rewritten": 1000}

    def cases(self):
        for n in range(1, self.maxlen + 1):
            for t in itertools.product(range(len(self.SYM)), repeat=n):
                yield t

    def describe(self, case):
        return {"string": "".join(self.SYM[i] for i in case)}

    def smaller(self, case):
        for i in range(len(case)):
            if len(case) > 1:
                yield case[:i] + case[i + 1:]
        for i in range(len(case)):
            if case[i] != 2:
                yield case[:i] + (2,) + case[i + 1:]

    def evaluate(self, case):
        s = "".join(self.SYM[i] for i in case)
        viol, tags = [], []
        for nm, fn in (("smart_quotes", smart_quotes), ("ellipses", ellipses)):
            a = fn(s)
            if a != s:
                tags.append("rewritten")
            b = fn(a)
            if a != b:
                viol.append(("fn-not-idempotent:" + nm, {"input": s, "once": a, "twice": b}))
        return Outcome(viol=viol, tags=sorted(set(tags)))


def spaces(tier):
    q = tier == "quick"
    oracle = make_oracle(tier)
    ctx = docspace.contexts(1, ("ul",), (None,)) if q else docspace.contexts(1, ("ul", "bq", "fnlong"), (None,))
    para = ParaSpace("C02", "para", MIX, 2 if q else 3, oracle, ctx, sepnames=("sp", "nl") if q else ("sp", "nl", "hb"), full_upto=2, reps=MIX_REPS,
                     lead="zz ", floors={"pass1-changed": 1000}, max_special_seps=1)
    para.hazard_rep = MIX.index("-")
    para.class_rep = para0_rep = _class_reps()
    para0 = ParaSpace("C02", "para-at-start", MIX, 2, oracle, docspace.contexts(0), sepnames=("sp", "nl"), full_upto=2, lead="",
                      floors={"pass1-changed": 100})
    para0.hazard_rep = MIX.index("-")
    para0.class_rep = para0_rep
    blk = BlockSpace("C02", "blocks", oracle, docspace.contexts(1, ("ul", "bq"), (None,)), 2, (88, 3) if q else (88, 3, 0),
                     modes=(False, True) if not q else (False,), full_upto=2, floors={"pass1-changed": 1000})
    unusual = UnusualSpace("C02", "blocks-unusual", oracle, docspace.contexts(1, ("ul", "bq"), (None,)), (88, 3) if q else (88, 3, 0),
                           modes=(False, True) if not q else (False,), floors={"pass1-changed": 1000})
    return [para, para0, blk, unusual, Plain(2 if q else 3, [0, 1, 4, 8, 20] if q else [0, 1, 3, 4, 8, 12, 20, 88]),
            TypoFn(8 if q else 9)]

"""C17 — file discovery returns exactly the wanted files, deterministically.

A tree with files around the size limit, other extensions, hidden files, default- and user-excluded
directories (also same-named directories at several places), symlinks to files and directories inside
and outside, a dangling link and a cycle; a .flowmarkignore at several places with one rule from a
small alphabet; x settings x every sequence of up to N arguments (files, directories, globs) in every
order x two directory-listing orders.  Oracle: an independent reference walk written from the
property text (lstat based, own gitignore-pattern matcher validated against git).
History space: sequences of tree states on one directory path in one process (ignore file moved or
rewritten, a file growing over the limit, a directory appearing), a new FileResolver per step.
"""
from __future__ import annotations

import fnmatch
import itertools
import os
import shutil
import tempfile

from vf import cli, core, ignore_ref
from vf.explorer import Outcome, Space

core.bind()
import flowmark.file_resolver.resolver as resolver_mod  # noqa: E402
from flowmark.file_resolver import FileResolver, FileResolverConfig  # noqa: E402
from flowmark.file_resolver.defaults import DEFAULT_EXCLUDES  # noqa: E402

LEVEL = "exploration"
RULE = ("complete enumeration of ignore-file placement x rule x settings x argument sequences (every order) x directory listing order on the "
        "fixed universe tree (with and without symlinks); a case is non-trivial when the reference result differs from a plain "
        "'all *.md files under the arguments' listing, i.e. at least one filter or rule really bites")
ASSUMPTIONS = ["the reference walk: explicit files bypass exclusion and ignore rules (unless force-exclude) but not the size limit; directories are "
               "walked without following links, no file is reached through a link, excluded directories are pruned, files need an include "
               "pattern, the size limit and no ignore rule; globs are expanded and then pass ALL filters; the nearest .flowmarkignore at or above "
               "the walk root applies with patterns relative to its own directory",
               "exclude patterns are gitignore patterns relative to the walk root (traversal) / the working directory (globs, explicit files)",
               ".gitignore handling is switched off here (C18 owns it)"]

LIMIT = 50
TREE = {
    "t/a.md": 10, "t/b.txt": 10, "t/c.mdx": 10, "t/big.md": LIMIT + 10, "t/eq.md": LIMIT, "t/.hidden.md": 10,
    "t/sub/a.md": 10, "t/sub/c.mdx": 10, "t/sub/drafts/d.md": 10, "t/sub/deep/a.md": 10,
    "t/drafts/d.md": 10, "t/node_modules/n.md": 10, "t/x.egg-info/e.md": 10, "t/zz/drafts/z.md": 10, "outside/o.md": 10, "outside/obig.md": LIMIT + 1,
}
LINKS = {"t/lf_in.md": "a.md", "t/lf_out.md": "../outside/o.md", "t/ld_in": "sub", "t/ld_out": "../outside", "t/dangling.md": "nope.md",
         "t/sub/cycle": "..", "t/lbig.md": "big.md", "t/sub/lbig_out.md": "../../outside/obig.md"}
IGN_PLACES = [None, "t", "t/sub", "."]        # "." = above the root
IGN_RULES = [["a.md"], ["sub/"], ["/a.md"], ["sub/a.md"], ["*.md"], ["*.md", "!a.md"], ["deep/"], ["drafts/d.md"]]
SETTINGS = [
    dict(),
    dict(extend_include=["*.mdx"]),
    dict(exclude=["drafts/"]),
    dict(extend_exclude=["drafts/"]),
    dict(extend_exclude=["sub/drafts/"]),
    dict(force_exclude=True),
    dict(files_max_size=0),
    dict(force_exclude=True, extend_exclude=["sub/drafts/"]),
]
ARGS = [".", "sub", "a.md", "node_modules/n.md", "lf_in.md", "*.md", "**/*.md", "sub/*.md", "drafts", "sub/drafts/d.md", "big.md", "zz", "lbig.md", "sub/lbig_out.md",
        # appended later: directory arguments whose spelling is not canonical ("..", a symlinked directory)
        "zz/../sub", "../t", "ld_in"]

_CACHE = {}


def build(symlinks, place, rule):
    key = (os.getpid(), symlinks, place, rule)
    if key in _CACHE:
        return _CACHE[key]
    for k, d in list(_CACHE.items()):
        shutil.rmtree(d, ignore_errors=True)
        del _CACHE[k]
    d = tempfile.mkdtemp(prefix="c17-", dir=core.scratch_root())
    for rel, size in TREE.items():
        p = os.path.join(d, rel)
        os.makedirs(os.path.dirname(p), exist_ok=True)
        with open(p, "w") as f:
            f.write("x" * (size - 1) + "\n")
    if symlinks:
        for rel, target in LINKS.items():
            os.symlink(target, os.path.join(d, rel))
    if place is not None:
        with open(os.path.join(d, IGN_PLACES[place], ".flowmarkignore"), "w") as f:
            f.write("\n".join(IGN_RULES[rule]) + "\n")
    _CACHE[key] = d
    return d


# ------------------------------------------------------------------------------------ reference walk
def _cfg(settings):
    c = dict(include=["*.md"], extend_include=[], exclude=None, extend_exclude=[], force_exclude=False, files_max_size=LIMIT)
    c.update(settings)
    c["includes"] = c["include"] + c["extend_include"]
    c["excludes"] = ignore_ref.compile_rules((c["exclude"] if c["exclude"] is not None else list(DEFAULT_EXCLUDES)) + c["extend_exclude"])
    return c


def _tool_ignore(start):
    cur = os.path.realpath(start)
    while True:
        p = os.path.join(cur, ".flowmarkignore")
        if os.path.isfile(p):
            with open(p) as f:
                return cur, ignore_ref.compile_rules(f.read().split("\n"))
        parent = os.path.dirname(cur)
        if parent == cur:
            return None
        cur = parent


def _too_big(path, c):
    return c["files_max_size"] != 0 and os.stat(path).st_size > c["files_max_size"]


def _included(name, c):
    return any(fnmatch.fnmatchcase(name, pat) for pat in c["includes"])


def ref_walk(root, c, out):
    root_real = os.path.realpath(root)
    ti = _tool_ignore(root_real)

    def rec(d):
        for name in sorted(os.listdir(d)):
            p = os.path.join(d, name)
            rel = os.path.relpath(p, root_real).replace(os.sep, "/")
            if os.path.islink(p):
                continue  # nothing is reached through a symbolic link during traversal
            is_dir = os.path.isdir(p)
            if ignore_ref.decide(c["excludes"], rel, is_dir):
                continue
            if ti and ignore_ref.ignored(ti[1], os.path.relpath(p, ti[0]).replace(os.sep, "/"), is_dir):
                continue  # (ignored() also looks at the parents between the ignore file and the walk root)
            if is_dir:
                rec(p)
            elif _included(name, c) and not _too_big(p, c):
                out.add(p)

    rec(root_real)


def ref_resolve(cwd, args, settings):
    c = _cfg(settings)
    out = set()
    for a in args:
        p = os.path.join(cwd, a)
        if os.path.isfile(p):
            if c["force_exclude"] and ignore_ref.ignored(c["excludes"], a, False):
                continue
            if _too_big(p, c):
                continue
            out.add(os.path.realpath(p))
        elif os.path.isdir(p):
            ref_walk(p, c, out)
        elif not any(ch in a for ch in "*?["):
            raise FileNotFoundError(a)
        else:
            # glob relative to cwd, then every filter; the ignore file is looked up from the static directory prefix of the pattern
            static = []
            for part in a.split("/"):
                if any(ch in part for ch in "*?["):
                    break
                static.append(part)
            ti = _tool_ignore(os.path.join(cwd, *static))
            for dirpath, dirnames, filenames in os.walk(cwd):
                for name in filenames:
                    full = os.path.join(dirpath, name)
                    rel = os.path.relpath(full, cwd).replace(os.sep, "/")
                    if not _glob_match(a, rel):
                        continue
                    if not os.path.isfile(full):
                        continue  # (a glob match that is a link to a file counts as naming it; dangling links do not exist)
                    if not _included(name, c) or _too_big(full, c):
                        continue
                    if ignore_ref.ignored(c["excludes"], rel, False):
                        continue
                    if ti and ignore_ref.ignored(ti[1], os.path.relpath(full, ti[0]).replace(os.sep, "/"), False):
                        continue
                    out.add(os.path.realpath(full))
    return sorted(out)


def _glob_match(pattern, rel):
    """pathlib-style glob: '*' within one component, '**' any number of directories."""
    pp, rp = pattern.split("/"), rel.split("/")

    def m(i, j):
        if i == len(pp):
            return j == len(rp)
        if pp[i] == "**":
            return any(m(i + 1, k) for k in range(j, len(rp) + 1))
        return j < len(rp) and fnmatch.fnmatchcase(rp[j], pp[i]) and m(i + 1, j + 1)

    return m(0, 0)


def _flags(kw):
    """The command-line spelling of a settings dict."""
    f = ["--files-max-size", str(kw.get("files_max_size", LIMIT))]
    for k, flag in (("extend_include", "--extend-include"), ("exclude", "--exclude"), ("extend_exclude", "--extend-exclude")):
        for v in kw.get(k) or []:
            f += [flag, v]
    if kw.get("force_exclude"):
        f.append("--force-exclude")
    return f


# ------------------------------------------------------------------------------------ the space
class Discovery(Space):
    prop = "C17"
    name = "discovery"

    def __init__(self, tier):
        q = tier == "quick"
        self.maxargs = 2 if q else 3
        self.arg_reps = [0, 1, 2, 3, 5, 6, 9]
        self.floors = {"filter-bites": 1000, "several-arguments": 1000, "symlinks-present": 1000}

    def cases(self):
        for symlinks in (False, True):
            for place in range(len(IGN_PLACES)):
                for rule in (range(len(IGN_RULES)) if place else (0,)):
                    for si in range(len(SETTINGS)):
                        for n in range(1, self.maxargs + 1):
                            pools = [range(len(ARGS))] * min(n, 2) + [self.arg_reps] * max(0, n - 2)
                            for args in itertools.product(*pools):
                                if len(set(args)) != len(args):
                                    continue
                                for order in (0, 1):
                                    yield (symlinks, place, rule, si, args, order)

    def describe(self, case):
        symlinks, place, rule, si, args, order = case
        return {"tree": "universe" + ("+symlinks" if symlinks else ""), "flowmarkignore": None if not place else {IGN_PLACES[place]: IGN_RULES[rule]},
                "settings": SETTINGS[si], "args": [ARGS[a] for a in args], "listing_order": ["sorted", "reversed"][order], "cwd": "t"}

    def smaller(self, case):
        symlinks, place, rule, si, args, order = case
        if symlinks:
            yield (False, place, rule, si, args, order)
        if place:
            yield (symlinks, 0, 0, si, args, order)
        if si:
            yield (symlinks, place, rule, 0, args, order)
        for i in range(len(args)):
            if len(args) > 1:
                yield (symlinks, place, rule, si, args[:i] + args[i + 1:], order)
        if order:
            yield (symlinks, place, rule, si, args, 0)

    def evaluate(self, case):
        symlinks, place, rule, si, args, order = case
        d = build(symlinks, IGN_PLACES.index(IGN_PLACES[place]) if place else None, rule)
        cwd = os.path.join(d, "t")
        argv = [ARGS[a] for a in args]
        settings = dict(SETTINGS[si])
        try:
            want = ref_resolve(cwd, argv, settings)
        except FileNotFoundError:
            want = "FileNotFoundError"
        plain = ref_resolve(cwd, argv, dict(files_max_size=0, exclude=[])) if (place is None and want != "FileNotFoundError") else None
        kw = dict(files_max_size=LIMIT, respect_gitignore=False)
        kw.update(settings)
        real_walk = os.walk

        def walk(top, *a, **k):
            for dirpath, dirnames, filenames in real_walk(top, *a, **k):
                dirnames.sort(reverse=bool(order))
                filenames.sort(reverse=bool(order))
                yield dirpath, dirnames, filenames

        old_cwd = os.getcwd()
        os.chdir(cwd)
        resolver_mod.os.walk = walk
        viol, tags = [], []
        try:
            try:
                got = [str(p) for p in FileResolver(FileResolverConfig(**kw)).resolve(argv)]
                # argument order must not matter
                got_rev = [str(p) for p in FileResolver(FileResolverConfig(**kw)).resolve(list(reversed(argv)))] if len(argv) > 1 else got
            except Exception as e:  # noqa: BLE001
                got, got_rev = None, None
                if not (isinstance(e, FileNotFoundError) and want == "FileNotFoundError"):
                    viol.append(("exception:" + type(e).__name__, {"args": argv, "settings": settings, "error": str(e)[:200]}))
            # the same question asked at the command line: `flowmark --list-files <settings> <args>` prints exactly that list
            if got is not None and order == 0:
                code, out, err = cli.run_inproc(["--list-files", "--no-respect-gitignore"] + _flags(kw) + argv, cwd)
                listed = out.split("\n")[:-1] if out else []
                if code != 0 or listed != got:
                    viol.append(("cli-list-files-differs", {"args": argv, "settings": settings, "exit": code, "cli": [os.path.relpath(p, d) if os.path.isabs(p) else p for p in listed],
                                                            "resolver": [os.path.relpath(p, d) for p in got], "stderr": err[-200:]}))
        finally:
            resolver_mod.os.walk = real_walk
            os.chdir(old_cwd)
        if len(argv) > 1:
            tags.append("several-arguments")
        if symlinks:
            tags.append("symlinks-present")
        if plain is None or plain != want:
            tags.append("filter-bites")
        if got is not None and want == "FileNotFoundError":
            viol.append(("missing-path-not-reported", {"args": argv, "got": got}))
        elif got is not None:
            rel = lambda ps: [os.path.relpath(p, d) for p in ps]  # noqa: E731
            if got != sorted(got) or len(set(got)) != len(got) or not all(os.path.isabs(p) for p in got):
                viol.append(("not-sorted-absolute-unique", {"args": argv, "settings": settings, "got": rel(got)}))
            if sorted(got) != want:
                extra, missing = sorted(set(got) - set(want)), sorted(set(want) - set(got))
                kind = "unwanted" if extra and not missing else "missed" if missing and not extra else "both"
                viol.append((kind, {"args": argv, "settings": settings, "flowmarkignore": self.describe(case)["flowmarkignore"],
                                    "unwanted": rel(extra), "missed": rel(missing), "listing_order": order}))
            if got_rev != got:
                viol.append(("argument-order-dependent", {"args": argv, "settings": settings, "forward": rel(got), "reversed": rel(got_rev)}))
        return Outcome(viol=viol, tags=tags, obs=hash(tuple(got or ())))


class History(Space):
    """Sequences of tree states on ONE directory path within one process (ignore file moved / rewritten, a file growing over
    the limit, a directory appearing), a new FileResolver per step: every listing must equal the reference for the tree as
    it is at that moment, whatever was listed before."""
    prop = "C17"
    name = "history"

    STATES = [(None, 0, False), ("t", 0, False), ("t", 4, False), ("t", 5, False), ("t/sub", 0, False), (".", 1, False), (None, 0, True), ("t", 6, True)]
    ARGSETS = [["."], ["*.md", "sub"], ["**/*.md"]]

    def __init__(self, tier):
        self.depth = 2 if tier == "quick" else 3
        self.floors = {"listing-changes-between-steps": 50}

    def cases(self):
        for n in range(2, self.depth + 1):
            for steps in itertools.product(range(len(self.STATES)), repeat=n):
                for a in range(len(self.ARGSETS)):
                    yield (steps, a)

    def describe(self, case):
        steps, a = case
        return {"steps": [{"flowmarkignore": None if self.STATES[s][0] is None else {self.STATES[s][0]: IGN_RULES[self.STATES[s][1]]},
                           "a.md grown over the limit and new directory t/new/": self.STATES[s][2]} for s in steps],
                "args": self.ARGSETS[a], "cwd": "t", "tree": "universe+symlinks"}

    def smaller(self, case):
        steps, a = case
        for x in range(len(steps) - 1):
            if len(steps) > 1:
                yield (steps[:x] + steps[x + 1:], a)
        if a:
            yield (steps, 0)

    def evaluate(self, case):
        steps, a = case
        d = tempfile.mkdtemp(prefix="c17h-", dir=core.scratch_root())
        viol, seen = [], []
        old_cwd = os.getcwd()
        try:
            for rel, size in TREE.items():
                p = os.path.join(d, rel)
                os.makedirs(os.path.dirname(p), exist_ok=True)
                with open(p, "w") as f:
                    f.write("x" * (size - 1) + "\n")
            for rel, target in LINKS.items():
                os.symlink(target, os.path.join(d, rel))
            cwd = os.path.join(d, "t")
            os.chdir(cwd)
            for pos, st in enumerate(steps):
                place, rule, grown = self.STATES[st]
                for pl in ("t", "t/sub", "."):
                    ip = os.path.join(d, pl, ".flowmarkignore")
                    if pl == place:
                        with open(ip, "w") as f:
                            f.write("\n".join(IGN_RULES[rule]) + "\n")
                    elif os.path.exists(ip):
                        os.unlink(ip)
                with open(os.path.join(cwd, "a.md"), "w") as f:
                    f.write("x" * ((LIMIT + 5 if grown else 10) - 1) + "\n")
                newdir = os.path.join(cwd, "new")
                if grown:
                    os.makedirs(newdir, exist_ok=True)
                    with open(os.path.join(newdir, "n.md"), "w") as f:
                        f.write("n\n")
                else:
                    shutil.rmtree(newdir, ignore_errors=True)
                want = ref_resolve(cwd, self.ARGSETS[a], {})
                got = [str(p) for p in FileResolver(FileResolverConfig(files_max_size=LIMIT, respect_gitignore=False)).resolve(self.ARGSETS[a])]
                seen.append(tuple(want))
                if got != want and not viol:
                    rel_ = lambda ps: [os.path.relpath(p, d) for p in ps]  # noqa: E731
                    viol.append(("listing-depends-on-earlier-tree-state" if pos else "first-listing-wrong",
                                 {"step": pos, "unwanted": rel_(sorted(set(got) - set(want))), "missed": rel_(sorted(set(want) - set(got)))}))
        finally:
            os.chdir(old_cwd)
            shutil.rmtree(d, ignore_errors=True)
        return Outcome(viol=viol, tags=["listing-changes-between-steps"] if len(set(seen)) > 1 else [], obs=hash(tuple(seen)))


def spaces(tier):
    return [Discovery(tier), History(tier)]

"""C13 — each formatting call is isolated from other calls.

Histories: breadth-first exploration of call sequences over an action alphabet (documents chosen as
setter / observer pairs for every mutable renderer, parser and wrapper field, x option sets); every
sequence runs in a fresh forked process that has imported flowmark but never called it, and after
every call the output must equal the action's baseline (its output as the first call of a fresh
process).  Process-wide mutable state is fingerprinted after every call (distinct states and
transitions are reported).
Schedules: a cooperative scheduler (sys.setprofile call events as scheduling points) runs two
threads, one reformat_text call each, and explores ALL schedules with at most one preemption at
every call into flowmark or marko code, and all schedules with two preemptions at calls into flowmark
code (quick: the first four document pairs; thorough: all); each thread's result must equal its solo
baseline.
"""
from __future__ import annotations

import hashlib
import itertools
import json
import os
import sys

from vf import core, sched
from vf.explorer import Outcome, Space

core.bind()
from flowmark import reformat_text  # noqa: E402

LEVEL = "model_checking"
RULE = ("histories: every sequence of actions up to the depth bound (complete enumeration), each in a fresh process; schedules: every "
        "placement of the preemption(s) over the scheduling points of a document pair; non-trivial = a sequence of >= 2 calls / a schedule "
        "in which the preemption really happened; states = distinct fingerprints of process-wide mutable state, transitions = calls made")
ASSUMPTIONS = ["scheduling points are Python-level call events in flowmark/ and marko/ source files; under the GIL there are no weak-memory effects",
               "baseline = output of the action as the first call in a fresh process"]

DOCS = [
    "plain paragraph of text here\n",                                       # 0
    "para\n\n> quote ends the document\n",                                  # 1 ends inside a quote (prefix state)
    "- a\n  - nested item ends the document\n",                              # 2 ends inside a nested list
    "# Heading ends the document\n",                                        # 3 ends after a heading (skip-blank flag)
    "- loose\n\n- list starts the document\n",                               # 4 starts with a loose list (suppress-item-break observer)
    "[a] and x[^1] are undefined here\n",                                   # 5 observer: references without definitions
    "[a] and x[^1]\n\n[a]: http://one \"t\"\n\n[^1]: note one\n",              # 6 setter: defines [a] and [^1]
    "[a]\n\n[a]: http://two\n",                                             # 7 same label, other destination
    "1\\. starts with an escaped marker\n",                                 # 8 observer of the inline-text tracker
    "| a | b |\n|---|---|\n| cell text | x |\n",                              # 9 table (cells feed the inline-text tracker)
    "`code span` [link text](u) {% tag a=\"b c\" %} and <b>html</b> words to wrap around here\n",   # 10 atomic constructs
    "```py\ncode\n```\n\n~~~\nmore\n~~~\n",                                  # 11 fences (code_info on the parse context)
    "---\ntitle: x\n---\nbody \"quoted\" text... it's here\n",                # 12 frontmatter + typography
    "He said \"hi\" and 'bye'... ok\n",                                      # 13
    # appended later: observers that START with the construct that reads a field (nothing resets it first)
    "| 1\\. | x |\n|---|---|\n| \\. | 2\\. |\n",                              # 14 table first, escaped periods in cells (inline-text tracker)
    "    indented code starts\n\n1\\. then an escaped marker\n",               # 15 code block first
    "> 1\\. quote starts with an escaped marker\n>\n> | a |\n> |---|\n> | 1\\. |\n",   # 16 quote first, table last
    "[^1]: footnote definition starts, 1\\. x\n\ntext[^1]\n\n| t |\n|---|\n| 12 |\n",   # 17 footnote first, table with digits last
    "~~~~python title\ncode\n~~~~\n\n* * *\n",                                # 18 tilde fence with info, ends with a rule
    "<div>\nhtml block\n</div>\n\n[a]: http://three\n",                       # 19 html block first, ends with a definition
    "[text](http://one \"t\") is an inline link to the target that document 6 defines as [a]\n",    # 20 same (dest, title), no definition here
    "[x](http://two) inline, and ![img](http://one \"t\")\n\n[b]: http://one \"t\"\n\nuse [b]\n",   # 21 same targets under another label
    # the same long sentence reached at different columns / after different leads (anything remembered per sentence or per word)
    "Yes. The quick brown fox jumps over the lazy dog while the cat watches from the window sill and the birds sing.\n",          # 22
    "Yes, that is certainly the case here. The quick brown fox jumps over the lazy dog while the cat watches from the window sill and the birds sing.\n",   # 23
    "- The quick brown fox jumps over the lazy dog while the cat watches from the window sill and the birds sing.\n",           # 24
    # appended later: inline links with an EMPTY destination (the one place where a label is still looked up by target), next to
    # definitions of the same labels with other targets
    "See the [docs] and [the guide][guide], and [the draft]().\n\n[docs]: <>\n[guide]: https://one.example/guide \"Guide\"\n",   # 25
    "See the [docs] and [the old site]() and ![]().\n\n[docs]: https://two.example/docs\n[guide]: https://two.example/guide\n",   # 26
]
OPTS = [dict(width=88, semantic=False, cleanups=False), dict(width=20, semantic=True, cleanups=True, smartquotes=True, ellipses=True),
        dict(width=10, semantic=False, cleanups=False, list_spacing="loose"), dict(width=40, plaintext=True),
        dict(width=60, semantic=True, cleanups=False)]   # (appended later: a width at which the starting column of a sentence matters)
ACTIONS = [(d, o) for d in range(len(DOCS)) for o in range(len(OPTS))]


def act(i):
    d, o = ACTIONS[i]
    return reformat_text(DOCS[d], **OPTS[o])


def fingerprint():
    """Summary of process-wide mutable state of flowmark.* and marko.* (module globals and class attributes that are
    containers, plus functools caches)."""
    h = hashlib.sha1()
    for name in sorted(sys.modules):
        if not (name == "flowmark" or name.startswith("flowmark.") or name == "marko" or name.startswith("marko.")):
            continue
        mod = sys.modules[name]
        for attr in sorted(vars(mod)):
            v = vars(mod)[attr]
            if isinstance(v, (dict, list, set)) and not attr.startswith("__"):
                h.update(f"{name}.{attr}:{type(v).__name__}:{len(v)};".encode())
            elif hasattr(v, "cache_info") and callable(getattr(v, "cache_info", None)):
                try:
                    h.update(f"{name}.{attr}:cache:{v.cache_info().currsize};".encode())
                except Exception:  # noqa: BLE001
                    pass
            elif isinstance(v, type) and getattr(v, "__module__", "") == name:
                for ca, cv in sorted(vars(v).items()):
                    if isinstance(cv, (dict, list, set)) and not ca.startswith("__"):
                        h.update(f"{name}.{attr}.{ca}:{len(cv)};".encode())
    return h.hexdigest()[:12]


def in_fresh_process(fn):
    """Run fn() in a forked child (the parent has imported flowmark but this process tree never called it... the
    caller guarantees that); returns its JSON-able result."""
    r, w = os.pipe()
    pid = os.fork()
    if pid == 0:
        try:
            os.close(r)
            try:
                res = fn()
            except BaseException as e:  # noqa: BLE001
                res = {"error": type(e).__name__ + ": " + str(e)[:200]}
            os.write(w, json.dumps(res).encode())
        finally:
            os._exit(0)
    os.close(w)
    data = b""
    while True:
        b = os.read(r, 65536)
        if not b:
            break
        data += b
    os.close(r)
    os.waitpid(pid, 0)
    return json.loads(data)


_BASE = None
_WARMED = set()
_WARM = False  # set as soon as THIS process has called into flowmark (histories need a cold parent)


def baselines():
    global _BASE
    if _BASE is None:
        _BASE = [in_fresh_process(lambda i=i: {"out": act(i), "fp": fingerprint()}) for i in range(len(ACTIONS))]
    return _BASE


class Histories(Space):
    prop = "C13"
    name = "histories"

    def __init__(self, tier):
        self.depth = 2 if tier == "quick" else 3
        self.floors = {"sequence>=2": 1000}
        self.base = baselines()
        # depth 3 over all 56 actions is 175k sequences; the third position uses one option set per document
        self.third = [i for i, (d, o) in enumerate(ACTIONS) if o == (d % len(OPTS))]

    def cases(self):
        n = len(ACTIONS)
        for i in range(n):
            yield (i,)
        for i in range(n):
            for j in range(n):
                yield (i, j)
        if self.depth >= 3:
            for i in range(n):
                for j in self.third:
                    for k in self.third:
                        yield (i, j, k)

    def describe(self, case):
        return {"calls": [{"doc": DOCS[ACTIONS[i][0]], "options": OPTS[ACTIONS[i][1]]} for i in case]}

    def smaller(self, case):
        for x in range(len(case) - 1):
            yield case[:x] + case[x + 1:]

    def evaluate(self, case):
        def run():
            outs, fps = [], [fingerprint()]
            for i in case:
                outs.append(act(i))
                fps.append(fingerprint())
            return {"outs": outs, "fps": fps}

        if _WARM:
            raise RuntimeError("HARNESS ERROR: history case evaluated in a process that already called flowmark")
        res = in_fresh_process(run)
        viol = []
        if "error" in res:
            return Outcome(viol=[("history:exception", res)])
        for pos, (i, out) in enumerate(zip(case, res["outs"])):
            if out != self.base[i]["out"]:
                viol.append(("history:output-depends-on-earlier-calls", {"position": pos, "action": self.describe((i,))["calls"][0],
                                                                         "after": out, "alone": self.base[i]["out"],
                                                                         "earlier": self.describe(case[:pos])["calls"]}))
                break
        states = set(res["fps"])
        return Outcome(viol=viol, tags=["sequence>=2"] if len(case) >= 2 else [], obs=hash(tuple(res["outs"])), states=states,
                       transitions=len(case), traces=1)


# ---- the same document under option sets that differ in ONE dimension (a memo keyed on too little collides exactly there)
DOCS2 = [
    "aaaa bbbb cccc dddd eeee ffff gggg hhhh - iiii jjjj kkkk llll mmmm nnnn oo 1. pppp qqqq rrrr # ssss tttt uuuu vv > wwww\n",   # markers land at line starts at width 40
    "He said \"this is it\"... and it's fine. Another sentence follows here now. - And a third one ends it all.\n",
    "- item one is long enough to wrap around the line here\n- item two \"q\"...\n\n1. x\n\n2. y\n",
    "# **Bold head**\n\n> quoted text that is long enough to wrap around at forty columns. Second sentence.\n",
    "`code span here` and [a link with text](http://u.v/w) {% tag a=\"b c\" %} then words to wrap around the forty columns\n",
    "First line ends here.\\\nsecond after a hard break... and \"more\" text that wraps around at the width given here.\n",
]
OPTS2 = ([dict(width=40, plaintext=True), dict(width=30, semantic=False, cleanups=False)]
         + [dict(width=40, semantic=sem, cleanups=ty, smartquotes=ty, ellipses=ty, list_spacing=ls)
            for sem in (False, True) for ty in (False, True) for ls in ("preserve", "loose")])
ACTIONS2 = [(d, o) for d in range(len(DOCS2)) for o in range(len(OPTS2))]
_BASE2 = None


def baselines2():
    global _BASE2
    if _BASE2 is None:
        _BASE2 = [in_fresh_process(lambda d=d, o=o: {"out": reformat_text(DOCS2[d], **OPTS2[o])}) for d, o in ACTIONS2]
    return _BASE2


class SameDocHistories(Space):
    """Every ordered pair (thorough: triple) of option sets applied to the same document in one fresh process."""

    prop = "C13"
    name = "histories-same-document"

    def __init__(self, tier):
        self.depth = 2 if tier == "quick" else 3
        self.floors = {"options-differ-in-output": 300}
        self.base = baselines2()

    def cases(self):
        n = len(OPTS2)
        for d in range(len(DOCS2)):
            for i in range(n):
                for j in range(n):
                    if self.depth == 2:
                        yield (d, i, j)
                    else:
                        for k in range(n):
                            yield (d, i, j, k)

    def describe(self, case):
        return {"calls": [{"doc": DOCS2[case[0]], "options": OPTS2[o]} for o in case[1:]]}

    def smaller(self, case):
        if len(case) > 3:
            yield case[:2] + case[3:]
            yield case[:3]

    def evaluate(self, case):
        d, seq = case[0], case[1:]

        def run():
            return {"outs": [reformat_text(DOCS2[d], **OPTS2[o]) for o in seq], "fps": [fingerprint()]}

        if _WARM:
            raise RuntimeError("HARNESS ERROR: history case evaluated in a process that already called flowmark")
        res = in_fresh_process(run)
        if "error" in res:
            return Outcome(viol=[("history:exception", res)])
        viol = []
        for pos, (o, out) in enumerate(zip(seq, res["outs"])):
            alone = self.base[d * len(OPTS2) + o]["out"]
            if out != alone:
                viol.append(("history:output-depends-on-earlier-calls", {"position": pos, "doc": DOCS2[d], "options": OPTS2[o], "after": out,
                                                                         "alone": alone, "earlier_options": [OPTS2[x] for x in seq[:pos]]}))
                break
        tags = ["options-differ-in-output"] if len({self.base[d * len(OPTS2) + o]["out"] for o in seq}) > 1 else []
        return Outcome(viol=viol, tags=tags, obs=hash(tuple(res["outs"])), states=set(res["fps"]), transitions=len(seq), traces=1)


# ---- pumped histories: many calls before the observed one (anything that runs out, fills up or wraps around: a shared iterator,
# a bounded cache, a counter) -- P^k ; O for every pump document P, every k and every observer O
def _pump_doc(i):
    cell = ['say "q%d" wait...ok {%% t a="x...y" %%} [l%d](http://u.v/%d) `c%d` it\'s' % (j, j, j, j) for j in range(40)]
    if i == 0:
        return "\n\n".join(cell) + "\n"
    if i == 1:
        return "| a | b |\n|---|---|\n" + "\n".join("| %s | {{ v...w }} \"z\" |" % c for c in cell) + "\n"
    return "\n".join("- %s\n\n  > quoted... \"q\" [r%d]\n\n[r%d]: http://u.v/r%d" % (c, j, j, j) for j, c in enumerate(cell)) + "\n"


PUMP_OPTS = dict(width=40, semantic=True, cleanups=True, smartquotes=True, ellipses=True)
PUMP_K = (1, 8, 64)
OBSERVERS = [
    ('Wait... {% field label="To be continued... maybe" %} and "quotes" it\'s {{ a...b }} <!-- c...d -->\n', PUMP_OPTS),
    ("[a] and x[^1] are undefined here, [r3] too... \"q\"\n", PUMP_OPTS),
    ("- loose\n\n- list starts the document\n\n| 1\\. | x |\n|---|---|\n| `c d` | [l k](u) |\n", dict(width=20, semantic=False, cleanups=False)),
    ("plain words that wrap around at the width of forty columns, - with a marker and 1. another one here\n", dict(width=40, semantic=False, cleanups=False)),
]
_BASE3 = None


def baselines3():
    global _BASE3
    if _BASE3 is None:
        _BASE3 = [in_fresh_process(lambda t=t, o=o: {"out": reformat_text(t, **o)}) for t, o in OBSERVERS]
    return _BASE3


class PumpedHistories(Space):
    prop = "C13"
    name = "histories-pumped"

    def __init__(self, tier):
        self.ks = PUMP_K if tier == "quick" else PUMP_K + (256,)
        self.floors = {"calls-before-observer>=64": 8}
        self.base = baselines3()

    def cases(self):
        for p in range(3):
            for k in self.ks:
                for o in range(len(OBSERVERS)):
                    yield (p, k, o)

    def describe(self, case):
        p, k, o = case
        return {"pump_document": _pump_doc(p)[:300] + " ...", "pump_options": PUMP_OPTS, "repetitions": k, "then": {"doc": OBSERVERS[o][0], "options": OBSERVERS[o][1]}}

    def smaller(self, case):
        p, k, o = case
        i = self.ks.index(k) if k in self.ks else 0
        if i:
            yield (p, self.ks[i - 1], o)

    def evaluate(self, case):
        p, k, o = case

        def run():
            doc = _pump_doc(p)
            first = reformat_text(doc, **PUMP_OPTS)
            last = first
            for _ in range(k - 1):
                last = reformat_text(doc, **PUMP_OPTS)
            return {"pump_stable": first == last, "out": reformat_text(OBSERVERS[o][0], **OBSERVERS[o][1]), "fp": fingerprint()}

        if _WARM:
            raise RuntimeError("HARNESS ERROR: history case evaluated in a process that already called flowmark")
        res = in_fresh_process(run)
        if "error" in res:
            return Outcome(viol=[("history:exception", res)])
        viol = []
        if not res["pump_stable"]:
            viol.append(("history:repeated-call-changes-output", {"pump": case[0], "repetitions": k}))
        if res["out"] != self.base[o]["out"]:
            viol.append(("history:output-depends-on-earlier-calls", {"after": res["out"], "alone": self.base[o]["out"], "repetitions": k}))
        return Outcome(viol=viol, tags=["calls-before-observer>=64"] if k >= 64 else [], obs=hash(res["out"]), states={res["fp"]}, transitions=k + 1, traces=1)


PAIRS = [
    (("[a] one\n\n[a]: http://one\n", dict(width=10, semantic=False, cleanups=False)), ("- x\n\n[a] two\n\n[a]: http://two\n", dict(width=10, semantic=False, cleanups=False))),
    (("`code span` [link text](u) {% tag a=\"b c\" %} words <b>html</b> to wrap\n", dict(width=12, semantic=False, cleanups=False)),
     ("other `span two` [second link](v) {{ var x }} <i>tags</i> here\n", dict(width=14, semantic=True, cleanups=False))),
    (("> quote \"with\" text... it's\n> - item\n", dict(width=20, semantic=True, cleanups=True, smartquotes=True, ellipses=True)),
     ("# **Head**\n\n1. one\n\n2. two\n", dict(width=20, semantic=False, cleanups=True, list_spacing="loose"))),
    (("| a | b |\n|---|---|\n| c d | e |\n\n1\\. para\n", dict(width=88, semantic=False, cleanups=False)),
     ("x[^1]\n\n[^1]: note\n\n```py\ncode\n```\n", dict(width=8, semantic=False, cleanups=False))),
    # appended later: both sides use the SAME construct with different parameters (a race on shared state needs two writers)
    (("~~~~python\ncode a\n~~~~\n\nDone.\n", dict(width=88, semantic=False, cleanups=False)),
     ("```js\ncode b\n```\n\nEnd.\n", dict(width=88, semantic=False, cleanups=False))),
    (("| a | b |\n|:--|--:|\n| c | 1\\. |\n", dict(width=88, semantic=False, cleanups=False)),
     ("| x |\n|---|\n| y z |\n\n2\\. p\n", dict(width=88, semantic=True, cleanups=False))),
    (("<div>\nblock\n</div>\n\nHead\n====\n\nt[^n]\n\n[^n]: note n\n", dict(width=12, semantic=False, cleanups=True)),
     ("<!-- c -->\n\n## **Sub**\n\nu[^m]\n\n[^m]: note m\n", dict(width=12, semantic=False, cleanups=True))),
    (("---\nk: v\n---\n> - \"q\" one... two\n", dict(width=16, semantic=True, cleanups=True, smartquotes=True, ellipses=True)),
     ("---\nz: w\n---\n1. > 'r' three... four\n", dict(width=16, semantic=True, cleanups=True, smartquotes=True, ellipses=True))),
]
P2_QUICK = 4   # two-preemption schedules: the first four pairs in the quick tier, every pair in the thorough tier


def flt_all(fn):
    return "/flowmark/" in fn or "/marko/" in fn


def flt_flowmark(fn):
    return "/flowmark/" in fn


class Schedules(Space):
    prop = "C13"
    name = "schedules"

    def __init__(self, tier):
        self.tier = tier
        self.floors = {"preempted": 500}
        self.solo = []
        self.npoints = {}
        def measure():
            solo, npoints = [], {}
            for pi, pair in enumerate(PAIRS):
                solo.append([reformat_text(t, **o) for t, o in pair])
                [reformat_text(t, **o) for t, o in pair]  # lazily built caches (regexes, splitter) are warm from here on
                for who in (0, 1):
                    for gran, flt in (("all", flt_all), ("fm", flt_flowmark)):
                        r = sched.Run([lambda t=pair[who][0], o=pair[who][1]: reformat_text(t, **o)], [], flt)
                        r.go()
                        npoints[f"{pi},{who},{gran}"] = r.points
            return {"solo": solo, "npoints": npoints}

        m = in_fresh_process(measure)   # measured in a child so that the main process stays cold for the histories
        self.solo = m["solo"]
        self.npoints = {(int(k.split(",")[0]), int(k.split(",")[1]), k.split(",")[2]): v for k, v in m["npoints"].items()}

    def cases(self):
        for pi in range(len(PAIRS)):
            yield (pi, "free", 0, 0, 0)
            for first in (0, 1):
                for k in range(self.npoints[(pi, first, "all")]):
                    yield (pi, "p1", first, k, 0)
            if pi < P2_QUICK or self.tier == "thorough":  # two preemptions at flowmark-function granularity
                for first in (0, 1):
                    na, nb = self.npoints[(pi, first, "fm")], self.npoints[(pi, 1 - first, "fm")]
                    for k1 in range(na):
                        for k2 in range(k1 + 1, k1 + 1 + nb):
                            yield (pi, "p2", first, k1, k2)

    def describe(self, case):
        pi, kind, first, k1, k2 = case
        return {"threads": [{"text": t, "options": o} for t, o in PAIRS[pi]], "schedule": kind, "first_thread": first,
                "preempt_at_point": k1, "switch_back_at_point": k2 if kind == "p2" else None}

    def smaller(self, case):
        return ()

    def evaluate(self, case):
        global _WARM
        _WARM = True
        pi, kind, first, k1, k2 = case
        pair = PAIRS[pi]
        if pi not in _WARMED:
            # first use in this worker: build the lazily initialised caches outside the scheduler, so that the number of
            # scheduling points is the same in every execution (and equal to the measured one)
            for _ in range(2):
                for t, o in pair:
                    reformat_text(t, **o)
            _WARMED.add(pi)
        bodies = [lambda t=t, o=o: reformat_text(t, **o) for t, o in pair]
        if kind == "free":
            switches, flt = [], flt_all
        elif kind == "p1":
            switches, flt = [(k1, 1 - first)], flt_all
        else:
            switches, flt = [(k1, 1 - first), (k2, first)], flt_flowmark
        r = sched.Run(bodies, switches, flt)
        res = r.go(first=first)
        tags = ["preempted"] if r.preemptions else []
        if r.preemptions >= 2:
            tags.append("two-preemptions")
        viol = []
        for tid in (0, 1):
            if res[tid] != ("ok", self.solo[pi][tid]):
                viol.append(("schedule:result-differs-from-solo", {"thread": tid, "schedule": self.describe(case), "got": res[tid],
                                                                   "solo": self.solo[pi][tid]}))
                break
        # replaying the same schedule must give the same observations (else the harness does not own the nondeterminism)
        if viol or (k1 % 97 == 0 and kind != "free"):
            r2 = sched.Run([lambda t=t, o=o: reformat_text(t, **o) for t, o in pair], list([(k1, 1 - first)] if kind == "p1" else switches), flt)
            res2 = r2.go(first=first)
            if res2 != res or r2.points != r.points:
                return Outcome(viol=[("HARNESS:replay-diverged", {"first": [res, r.points], "second": [res2, r2.points]})])
            tags.append("replayed-identically")
        return Outcome(viol=viol, tags=tags, obs=hash((tuple(map(tuple, res)), r.points)), states={(r.points, r.preemptions)},
                       transitions=r.points, traces=1)


def spaces(tier):
    return [Histories(tier), SameDocHistories(tier), PumpedHistories(tier), Schedules(tier)]


def extra(reports, tier):
    out = {"history_actions": len(ACTIONS)}
    for r in reports:
        if r.space.name == "schedules":
            out["scheduling_points"] = {f"pair{pi}-thread{w}-{g}": n for (pi, w, g), n in sorted(r.space.npoints.items())}
        if r.space.name == "histories":
            out["history_depth"] = r.space.depth
    return out

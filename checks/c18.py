"""C18 — gitignore handling agrees with git.

Fixed tree; .gitignore files at {root, sub, sub/deep} each holding EVERY sequence of up to N lines
over a pattern alphabet (basename, anchored, multi-segment, dir-only, *, **, ?, negation, comment,
escaped #, trailing space); walk roots {repo root, sub}.  Oracle: real `git ls-files -co
--exclude-standard` in the same tree, with the ignore files above the walk root removed for the git run
(the property says: from the traversal root down).  With --no-respect-gitignore the listing must
equal the listing with every .gitignore deleted.  Histories: sequences of 2-3 configurations written
to one directory path within one process, a new FileResolver per step; every listing must agree with git
on the configuration present at that moment (nothing remembered about a path may outlive a call).
"""
from __future__ import annotations

import itertools
import os
import shutil
import subprocess
import tempfile

from vf import core
from vf.explorer import Outcome, Space

core.bind()
from flowmark.file_resolver import FileResolver, FileResolverConfig  # noqa: E402

LEVEL = "exploration"
RULE = ("complete enumeration of line sequences over the pattern alphabet for the .gitignore files at root / sub / sub/deep x walk root; "
        "each configuration is listed by flowmark's FileResolver and by real git; a case is non-trivial when git ignores at least one file "
        "of the tree (the rules really bite)")
ASSUMPTIONS = ["git 2.39 with GIT_CONFIG_GLOBAL=/dev/null, GIT_CONFIG_SYSTEM=/dev/null, a private HOME and an empty info/exclude is the reference",
               "ignore files above the walk root are removed for the git run (the property: 'from the traversal root down')",
               "the .gitignore files themselves are not *.md, so they never appear in either listing"]

FILES = ["a.md", "b.md", "sub/a.md", "sub/b.md", "sub/deep/a.md", "sub/deep/c.md", "other/a.md", "other/sub/a.md"]
PATS = ["a.md", "/a.md", "sub/a.md", "sub/", "sub", "deep/", "*.md", "**/a.md", "sub/**", "?.md", "a.*", "!a.md", "!sub/", "#a.md", "\\#a.md", "a.md ",
        "!sub/a.md", "/sub/deep", "b.md", "!*.md", "deep/a.md", "**/deep/", "other/*/a.md", "!/a.md"]
IGDIRS = ["", "sub", "sub/deep"]

_ENV = None
_REPO = None


def _env():
    global _ENV
    if _ENV is None:
        home = os.path.join(core.scratch_root(), "githome")
        os.makedirs(home, exist_ok=True)
        _ENV = dict(os.environ, GIT_CONFIG_GLOBAL="/dev/null", GIT_CONFIG_SYSTEM="/dev/null", HOME=home, GIT_CONFIG_NOSYSTEM="1")
    return _ENV


def _repo():
    """One private git repository per worker process."""
    global _REPO
    if _REPO is None or not os.path.isdir(_REPO) or os.environ.get("VF_C18_PID") != str(os.getpid()):
        _REPO = tempfile.mkdtemp(prefix="git-", dir=core.scratch_root())
        os.environ["VF_C18_PID"] = str(os.getpid())
        for f in FILES:
            p = os.path.join(_REPO, f)
            os.makedirs(os.path.dirname(p), exist_ok=True)
            with open(p, "w") as fh:
                fh.write("x\n")
        subprocess.run(["git", "init", "-q", "."], cwd=_REPO, env=_env(), check=True, capture_output=True)
        with open(os.path.join(_REPO, ".git", "info", "exclude"), "w") as fh:
            fh.write("")
    return _REPO


def set_ignores(repo, rules_by_dir):
    for d in IGDIRS:
        p = os.path.join(repo, d, ".gitignore")
        lines = rules_by_dir.get(d)
        if lines:
            with open(p, "w") as fh:
                fh.write("\n".join(lines) + "\n")
        elif os.path.exists(p):
            os.unlink(p)


def git_list(repo, walk_root):
    cwd = os.path.join(repo, walk_root)
    out = subprocess.run(["git", "ls-files", "-co", "--exclude-standard", "--", "."], cwd=cwd, env=_env(), capture_output=True, text=True,
                         check=True).stdout.split("\n")
    return sorted(os.path.normpath(os.path.join(walk_root, x)) for x in out if x.endswith(".md"))


ROOTS = [("",), ("sub",), ("", "sub"), ("sub", "")]   # walk roots of ONE resolve() call (the last two: overlapping directory arguments)


# appended later: other spellings of ONE walk root -- the path as typed is not canonical ("..", a symlinked directory, relative to a cwd
# inside the tree); what git lists does not depend on how the directory was named
SPELLED = {4: ("sub", "dotdot"), 5: ("", "symlink"), 6: ("sub", "relative"), 7: ("sub", "symlink")}


def fm_list(repo, walk_roots, respect=True, spelling=None):
    if isinstance(walk_roots, str):
        walk_roots = (walk_roots,)
    roots = [os.path.join(repo, w) if w else repo for w in walk_roots]
    old_cwd, link = os.getcwd(), None
    try:
        if spelling == "dotdot":
            roots = [os.path.join(repo, "other", "..", w) for w in walk_roots]
        elif spelling == "relative":
            os.chdir(os.path.join(repo, "other"))
            roots = [os.path.join("..", w) for w in walk_roots]
        elif spelling == "symlink":
            link = repo.rstrip("/") + "-link"
            os.symlink(repo, link)
            roots = [os.path.join(link, w) if w else link for w in walk_roots]
        res = FileResolver(FileResolverConfig(respect_gitignore=respect)).resolve(roots)
    finally:
        os.chdir(old_cwd)
        if link:
            os.unlink(link)
    real = os.path.realpath(repo)
    return sorted(os.path.relpath(str(p), real) for p in res)


def fresh_tree():
    """A new directory (new path) holding the fixed tree, for flowmark only: whatever flowmark remembers about a path
    cannot carry over from one case to the next."""
    d = tempfile.mkdtemp(prefix="fm-", dir=core.scratch_root())
    for f in FILES:
        p = os.path.join(d, f)
        os.makedirs(os.path.dirname(p), exist_ok=True)
        with open(p, "w") as fh:
            fh.write("x\n")
    return d


class Git(Space):
    prop = "C18"
    name = "gitignore-vs-git"

    def __init__(self, tier):
        q = tier == "quick"
        self.tier = tier
        self.floors = {"git-ignores-something": 500, "negation-present": 100, "nested-ignore-file": 100}
        self.reps = [PATS.index(p) for p in ("a.md", "/a.md", "sub/a.md", "sub/", "*.md", "!a.md", "**/a.md", "!sub/")]

    def cases(self):
        n = len(PATS)
        # (a) one file with 1..2 lines (quick: 2 lines only from reps x all); (b) root x sub pairs; (c) root x sub x deep (reps)
        for d in range(len(IGDIRS)):
            for i in range(n):
                for root in (0, 1, 2, 3, 4, 5, 6, 7):
                    yield (((d, (i,)),), root)
            second = range(n)
            for i in range(n):
                for j in second:
                    for root in (0, 1):
                        yield (((d, (i, j)),), root)
        for i in range(n):
            for j in range(n):
                for root in (0, 1, 2, 3) if (self.tier == "thorough" or (i in self.reps and j in self.reps)) else (0, 1):
                    yield (((0, (i,)), (1, (j,))), root)
                    if self.tier == "thorough" or (i in self.reps and j in self.reps):
                        yield (((1, (i,)), (2, (j,))), root)
                        yield (((0, (i,)), (2, (j,))), root)
        for i in self.reps:
            for j in self.reps:
                for k in self.reps:
                    for root in (0, 1):
                        yield (((0, (i,)), (1, (j,)), (2, (k,))), root)
                        yield (((0, (i, j, k)),), root)      # three lines in one file (a rule repeated after its opposite)
                    if self.tier == "thorough":
                        yield (((1, (i, j, k)),), 0)
        if self.tier == "thorough":
            for i in self.reps:
                for j in self.reps:
                    for k in range(n):
                        for l in self.reps:
                            yield (((0, (i, j)), (1, (k, l))), 0)

    def describe(self, case):
        files, root = case
        return {"gitignore": {(IGDIRS[d] or ".") + "/.gitignore": [PATS[i] for i in ls] for d, ls in files},
                "walk_roots": [w or "." for w in (ROOTS[root] if root < len(ROOTS) else (SPELLED[root][0],))], "root_spelling": SPELLED[root][1] if root in SPELLED else "absolute", "tree": FILES}

    def smaller(self, case):
        files, root = case
        for x in range(len(files)):
            if len(files) > 1:
                yield (files[:x] + files[x + 1:], root)
            d, ls = files[x]
            for y in range(len(ls)):
                if len(ls) > 1:
                    yield (files[:x] + ((d, ls[:y] + ls[y + 1:]),) + files[x + 1:], root)
        if root:
            yield (files, 0)

    def evaluate(self, case):
        files, root = case
        repo = _repo()
        walk_roots, spelling = (ROOTS[root], None) if root < len(ROOTS) else ((SPELLED[root][0],), SPELLED[root][1])
        rules = {IGDIRS[d]: [PATS[i] for i in ls] for d, ls in files}
        tree = fresh_tree()
        try:
            set_ignores(tree, rules)
            got = fm_list(tree, walk_roots, spelling=spelling)
            nores = fm_list(tree, walk_roots, respect=False, spelling=spelling)
        finally:
            shutil.rmtree(tree, ignore_errors=True)
        # git: one listing per walk root (ignore files above that root do not count); several roots = the union
        want, all_files = set(), set()
        for walk_root in walk_roots:
            git_rules = {d: r for d, r in rules.items() if not walk_root or d == walk_root or d.startswith(walk_root + "/")}
            set_ignores(repo, git_rules)
            want |= set(git_list(repo, walk_root))
            set_ignores(repo, {})
            all_files |= set(git_list(repo, walk_root))
        want, all_files, walk_root = sorted(want), sorted(all_files), " + ".join(w or "." for w in walk_roots)
        tags, viol = [], []
        if want != all_files:
            tags.append("git-ignores-something")
        if any(PATS[i].startswith("!") for _, ls in files for i in ls):
            tags.append("negation-present")
        if any(d for d, _ in files):
            tags.append("nested-ignore-file")
        if got != want:
            extra = sorted(set(got) - set(want))
            missing = sorted(set(want) - set(got))
            sig = "lists-what-git-ignores" if extra and not missing else "omits-what-git-lists" if missing and not extra else "both"
            viol.append((sig, {"gitignore": {(d or ".") + "/.gitignore": r for d, r in rules.items()}, "walk_root": walk_root or ".",
                               "flowmark_only": extra, "git_only": missing}))
        if nores != all_files:
            viol.append(("no-respect-gitignore-still-influenced", {"gitignore": rules, "listing": nores, "expected": all_files}))
        return Outcome(viol=viol, tags=tags, obs=hash(tuple(got)))


class GitHistory(Space):
    """Sequences of configurations on ONE directory path within one process: write the ignore files, list, rewrite them,
    list again with a new FileResolver, ...; every listing must agree with git on the configuration present at that moment."""
    prop = "C18"
    name = "gitignore-history"

    def __init__(self, tier):
        self.tier = tier
        self.floors = {"listing-changes-between-steps": 100}
        reps = [PATS.index(p) for p in ("a.md", "sub/", "*.md", "!a.md", "**/a.md", "b.md")]
        self.cfgs = [()] + [((d, (i,)),) for d in (0, 1) for i in reps] + [((0, (PATS.index("*.md"),)), (1, (PATS.index("!a.md"),)))]
        self.depth = 2 if tier == "quick" else 3

    def cases(self):
        n = len(self.cfgs)
        for steps in itertools.product(range(n), repeat=2):
            for root in (0, 1):
                yield (steps, root)
        if self.depth >= 3:
            for steps in itertools.product(range(n), repeat=3):
                yield (steps, 0)

    def describe(self, case):
        steps, root = case
        return {"steps": [{(IGDIRS[d] or ".") + "/.gitignore": [PATS[i] for i in ls] for d, ls in self.cfgs[c]} for c in steps],
                "walk_root": ["", "sub"][root] or ".", "tree": FILES}

    def smaller(self, case):
        steps, root = case
        for x in range(len(steps) - 1):
            yield (steps[:x] + steps[x + 1:], root)
        if root:
            yield (steps, 0)

    def evaluate(self, case):
        steps, root = case
        repo = _repo()
        walk_root = ["", "sub"][root]
        tree = fresh_tree()
        viol, tags, seen = [], [], []
        try:
            for pos, c in enumerate(steps):
                rules = {IGDIRS[d]: [PATS[i] for i in ls] for d, ls in self.cfgs[c]}
                set_ignores(tree, rules)
                got = fm_list(tree, walk_root)
                git_rules = {d: r for d, r in rules.items() if not walk_root or d == walk_root or d.startswith(walk_root + "/")}
                set_ignores(repo, git_rules)
                want = git_list(repo, walk_root)
                seen.append(tuple(want))
                if got != want and not viol:
                    viol.append(("listing-depends-on-earlier-configuration" if pos else "first-listing-wrong",
                                 {"step": pos, "gitignore_now": rules, "flowmark": got, "git": want,
                                  "earlier": self.describe((steps[:pos], root))["steps"]}))
        finally:
            shutil.rmtree(tree, ignore_errors=True)
            set_ignores(repo, {})
        if len(set(seen)) > 1:
            tags.append("listing-changes-between-steps")
        return Outcome(viol=viol, tags=tags, obs=hash(tuple(seen)))


def spaces(tier):
    return [Git(tier), GitHistory(tier)]

"""C12 — formatting always terminates with well-formed output.

(i)   EVERY string up to a length bound over a 26-symbol "punctuation soup" x 3 option sets;
(ii)  every sequence of up to 3 delimiter tokens (unbalanced openers/closers of every construct, Unicode line
      separators, an astral character, the placeholder syntax itself);
(iii) pumped families pre + unit^k + post for every unit of <= 2 delimiter tokens, k growing geometrically:
      CPU time must stay under a budget and grow with an exponent <= 2.5 (container-opening units are pumped
      inline only up to the declared nesting bound of 12, and line-wise beyond).
(iv)  every document of 3 (thorough: up to 4) short lines over a line alphabet x 7 containers (incl. lazy continuation)
      x every line ending in {newline, backslash hard break, two-space hard break}.
Oracle: returns str without raising, within the per-case watchdog; Markdown-mode output ends with a newline;
no NUL / C0 control / internal placeholder that was not in the input; no ADDED trailing spaces on whitespace-only
lines inside code blocks (the output has no more such lines than the input has whitespace-only lines with trailing blanks).
"""
from __future__ import annotations

import itertools
import math
import re
import time

from vf import core
from vf.explorer import Outcome, Space

core.bind()
from flowmark import reformat_text  # noqa: E402

LEVEL = "exploration"
RULE = ("complete enumeration of all strings up to the length bound over the soup alphabet x option sets (length-5 strings: the two Markdown option sets), of all token sequences up to "
        "length 3, and of all pump units x prefixes x suffixes x sizes; a case is non-trivial when the output differs from the input plus "
        "newline (the formatter did something) or, for pumped families, when the largest size took more than the timing floor")
ASSUMPTIONS = ["declared bounds: container nesting depth <= 12 (Marko's recursive quote parser is exponential beyond ~20 levels and hits the "
               "recursion limit near 250; both lie outside the bound and are recorded in DESIGN.md)",
               "growth: CPU time (process_time) of the two largest sizes above a 20 ms floor must fit exponent <= 2.5, and the largest size must "
               "finish within 10 s; a case is re-measured before it is reported"]

SOUP = ["`", "*", "_", "[", "]", "(", ")", "<", ">", "!", "-", "#", "{", "}", "%", "|", "\\", "~", ":", '"', "'", ".", " ", "\n", "\t", "\r", "\x00", "a", "1"]
OPTSETS = [dict(width=88, semantic=False, cleanups=False),
           dict(width=3, semantic=True, cleanups=True, smartquotes=True, ellipses=True, list_spacing="loose"),
           dict(width=-3, semantic=True, cleanups=True, smartquotes=True, ellipses=True, list_spacing="tight"),
           dict(width=5, plaintext=True)]

_CTRL = re.compile(r"[\x00-\x08\x0b\x0c\x0e-\x1f]")


def wellformed(text, out, opts):
    """-> list of (signature, detail)."""
    v = []
    if not isinstance(out, str):
        return [("not-a-string", {"type": type(out).__name__})]
    if not opts.get("plaintext"):
        if not out.endswith("\n"):
            v.append(("no-final-newline", {"input": text, "output": out[-80:]}))
    extra = set(_CTRL.findall(out)) - set(_CTRL.findall(text))
    if extra:
        v.append(("control-character-added", {"input": text[:200], "added": sorted(map(repr, extra))}))
    if "\x00AC" in out and "\x00AC" not in text:
        v.append(("placeholder-leaked", {"input": text[:200], "output": out[:200]}))
    if not opts.get("plaintext"):
        # "no ADDED trailing spaces": more whitespace-only code lines with trailing blanks in the output than the input has
        # whitespace-only lines with trailing blanks at all
        n_out, sample = _blank_code_lines_with_trailing_space(out)
        n_in = sum(1 for ln in text.split("\n") if re.sub(r"^[ >]*", "", ln).strip() == "" and ln != ln.rstrip())
        if n_out > n_in:
            v.append(("code-blank-line-has-trailing-space", {"input": text[:200], "line": sample, "in_input": n_in, "in_output": n_out}))
    return v


def _blank_code_lines_with_trailing_space(out):
    n, sample, fence = 0, None, None
    for ln in out.split("\n"):
        core_ln = re.sub(r"^[ >]*", "", ln)
        m = re.match(r"^(`{3,}|~{3,})", core_ln)
        if fence is None:
            if m:
                fence = m.group(1)
        elif m and core_ln.strip() == m.group(1) and m.group(1)[0] == fence[0] and len(m.group(1)) >= len(fence):
            fence = None
        elif core_ln.strip() == "" and ln != ln.rstrip():
            n += 1
            sample = sample or ln
    return n, sample


def run_all(text, optsets=None):
    viol, changed = [], False
    for i, o in enumerate(optsets or OPTSETS):
        out = reformat_text(text, **o)
        if out != text + "\n":
            changed = True
        for s, d in wellformed(text, out, o):
            viol.append((s, dict(d, options=o)))
    seen = {}
    for s, d in viol:
        seen.setdefault(s, d)
    return list(seen.items()), changed


class Soup(Space):
    prop = "C12"
    name = "soup"

    def __init__(self, maxlen):
        self.maxlen = maxlen
        self.floors = {"formatter-changed-text": 1000}

    def cases(self):
        for n in range(0, self.maxlen + 1):
            yield from itertools.product(range(len(SOUP)), repeat=n)

    def describe(self, case):
        return {"text": "".join(SOUP[i] for i in case)}

    def smaller(self, case):
        for i in range(len(case)):
            yield case[:i] + case[i + 1:]

    def evaluate(self, case):
        text = "".join(SOUP[i] for i in case)
        # strings of the maximal length of the thorough tier run under the two Markdown option sets only (stated in the evidence rule)
        viol, changed = run_all(text, OPTSETS[:2] if len(case) >= 5 else None)
        return Outcome(viol=viol, tags=["formatter-changed-text"] if changed else [])


TOKENS = ["```", "~~~", "````x", "`", "``", "**", "*", "__", "~~", "[", "](", "](u", ")", "[^", "]:", "![", "<", "<!--", "-->", "<a", "</a>", "{%", "%}", "{{", "}}",
          "{#", "#}", "|", "|-|", "---", "===", "- ", "1. ", "> ", "# ", "    ", "\\", "\\\n", "  \n", "\n", "\n\n", "&amp;", "&#0;", " ", "\U0001F600",
          "\x00AC0\x00", "\x00", "\r\n", "\r", "http://", "www.", "a", "中", "[x]: ", "[^x]: ", "> [!NOTE]\n",
          # appended later: link / image / definition heads and escaped-backslash tails
          "[l](", "![i](", "[l](<", "\\\\", "\\\\)", "\\\\>", " \"t", "\\\"", "'t')",
          # appended later: tabs after every kind of block marker
          "\t", "[^x]:\t", "-\t", "1.\t", ">\t", "#\t", "[x]:\t", "|\t",
          # ... and complete tab-separated openers, so that a container token in front of them fits into a two-token sequence
          "[^x]:\ta", "[x]:\tu", "-\ta", "1.\ta", "#\ta", "  [^x]:\ta", "\t[^x]: a"]


class Tokens(Space):
    prop = "C12"
    name = "tokens"

    def __init__(self, maxn):
        self.maxn = maxn
        self.floors = {"formatter-changed-text": 1000}

    def cases(self):
        for n in range(1, self.maxn + 1):
            yield from itertools.product(range(len(TOKENS)), repeat=n)

    def describe(self, case):
        return {"text": "".join(TOKENS[i] for i in case)}

    def smaller(self, case):
        for i in range(len(case)):
            if len(case) > 1:
                yield case[:i] + case[i + 1:]

    def evaluate(self, case):
        text = "".join(TOKENS[i] for i in case)
        viol, changed = run_all(text)
        return Outcome(viol=viol, tags=["formatter-changed-text"] if changed else [])


UNITS = ["`", "*", "_", "[", "]", "(", ")", "<", ">", "!", "-", "#", "{%", "%}", "{{", "}}", "<!--", "-->", "|", "\\", "~", "\"", "'", ".", "a ", "[a]", "(b)",
         "[a](", "![", "<a ", "`` ", "** ", "* a ", "- ", "> ", "1. ", "    ", "\n", "\n\n", "a\n", "> \n", "- \n", "|a", "&", "--", "---\n", "# \n", "<!-- -", "{% a", "[^a]", "[a]: b\n",
         # appended later
         "\\a", "\\]", "\\)", "a\\"]
NESTING = {"- ", "> ", ">", "1. ", "* a ", "    "}
PRE = ["", "x ",
       # appended later: an unclosed opener in front of the pumped part (single units, two option sets)
       "see [", "[a](", "<", "`", "{% ", "<!-- ", "**", "[^", "![", "<a "]
PRE_BASE = 2
POST = ["", " y", "\n"]


class Pumped(Space):
    prop = "C12"
    name = "pumped"

    def __init__(self, tier):
        self.sizes = (16, 64, 256, 1024) if tier == "quick" else (16, 64, 256, 1024, 4096)
        self.pairs = tier == "thorough"
        self.floors = {"measured": 50}

    def cases(self):
        units = [(u,) for u in range(len(UNITS))]
        if self.pairs:
            units += [(a, b) for a in range(len(UNITS)) for b in range(len(UNITS)) if a != b]
        else:
            units += [(a, b) for a in range(0, len(UNITS), 3) for b in range(1, len(UNITS), 4) if a != b]
        for u in units:
            for pre in range(PRE_BASE):
                for post in range(len(POST)):
                    for o in range(len(OPTSETS)):
                        yield (u, pre, post, o)
        for u in range(len(UNITS)):
            for pre in range(PRE_BASE, len(PRE)):
                for o in (0, 1) if not self.pairs else range(len(OPTSETS)):
                    yield ((u,), pre, 0, o)

    def text(self, case, k):
        u, pre, post, o = case
        unit = "".join(UNITS[i] for i in u)
        if any(UNITS[i] in NESTING for i in u):
            # inline repetition of a container opener nests containers: stay within the declared nesting bound and
            # pump the rest line-wise (siblings, not nesting)
            inline = unit * min(k, 12)
            return PRE[pre] + "\n".join([inline + "z"] * max(1, k // 12)) + POST[post]
        return PRE[pre] + unit * k + POST[post]

    def describe(self, case):
        return {"unit": "".join(UNITS[i] for i in case[0]), "pre": PRE[case[1]], "post": POST[case[2]], "options": OPTSETS[case[3]], "sizes": self.sizes}

    def smaller(self, case):
        u, pre, post, o = case
        if len(u) > 1:
            yield ((u[0],), pre, post, o)
            yield ((u[1],), pre, post, o)
        if pre:
            yield (u, 0, post, o)
        if post:
            yield (u, pre, 0, o)
        if o:
            yield (u, pre, post, 0)

    def _measure(self, case):
        opts = OPTSETS[case[3]]
        times, viol = [], []
        for k in self.sizes:
            text = self.text(case, k)
            t0 = time.process_time()
            out = reformat_text(text, **opts)
            dt = time.process_time() - t0
            times.append(dt)
            for s, d in wellformed(text, out, opts):
                viol.append((s, dict(d, size=k)))
            if dt > 10.0:
                viol.append(("too-slow", {"size": k, "seconds": round(dt, 2)}))
                break
        return times, viol

    def evaluate(self, case):
        times, viol = self._measure(case)
        tags = []
        big = [(k, t) for k, t in zip(self.sizes, times) if t >= 0.02]
        if len(big) >= 2:
            tags.append("measured")
            (k1, t1), (k2, t2) = big[-2], big[-1]
            expo = math.log(t2 / t1) / math.log(k2 / k1)
            if expo > 2.5:
                # re-measure once before alarming (timing noise)
                times2, _ = self._measure(case)
                big2 = [(k, t) for k, t in zip(self.sizes, times2) if t >= 0.02]
                if len(big2) >= 2:
                    (k1, t1), (k2, t2) = big2[-2], big2[-1]
                    expo2 = math.log(t2 / t1) / math.log(k2 / k1)
                    if expo2 > 2.5:
                        viol.append(("super-quadratic-growth", {"sizes": list(self.sizes), "seconds": [round(t, 4) for t in times2], "exponent": round(min(expo, expo2), 2)}))
        seen = {}
        for s, d in viol:
            seen.setdefault(s, d)
        return Outcome(viol=list(seen.items()), tags=tags)


CONT = [("", ""), ("- ", "  "), ("> ", "> "), ("> ", ""), ("1. ", "   "), ("[^x]: ", "    "), ("- > ", "  > ")]
LINE_ALPH = ["", "a", "a b", "\\", "-", "#", "`x", "{% t %}", "|", "1.", "***", "<b>", "[l](u)", "    x"]
ENDS = ["\n", "\\\n", "  \n"]


class Lines(Space):
    """Documents of 2-4 short lines in every container, every line ended plainly or by either form of hard break (also
    consecutive and leading / trailing hard breaks, empty segments, lazy continuation lines)."""
    prop = "C12"
    name = "lines"

    def __init__(self, tier):
        q = tier == "quick"
        self.shapes = [(3, 8)] if q else [(3, len(LINE_ALPH)), (4, 6)]   # (number of lines, size of the line alphabet prefix)
        self.floors = {"formatter-changed-text": 1000, "hard-break": 1000}

    def cases(self):
        for n, k in self.shapes:
            for c in range(len(CONT)):
                for ls in itertools.product(range(k), repeat=n):
                    for es in itertools.product(range(len(ENDS)), repeat=n - 1):
                        yield (c, ls, es)

    def text(self, case):
        c, ls, es = case
        first, cont = CONT[c]
        out = first
        for i, l in enumerate(ls):
            out += LINE_ALPH[l]
            if i < len(es):
                out += ENDS[es[i]] + cont
        return out + "\n"

    def describe(self, case):
        return {"text": self.text(case)}

    def smaller(self, case):
        c, ls, es = case
        if c:
            yield (0, ls, es)
        for i in range(len(ls)):
            if len(ls) > 1:
                yield (c, ls[:i] + ls[i + 1:], es[:i] + es[i + 1:] if i < len(es) else es[:-1])
        for i in range(len(ls)):
            if ls[i] > 1:
                yield (c, ls[:i] + (1,) + ls[i + 1:], es)
        for i in range(len(es)):
            if es[i]:
                yield (c, ls, es[:i] + (0,) + es[i + 1:])

    def evaluate(self, case):
        text = self.text(case)
        viol, changed = run_all(text)
        tags = ["formatter-changed-text"] if changed else []
        if any(case[2]):
            tags.append("hard-break")
        return Outcome(viol=viol, tags=tags)


def spaces(tier):
    q = tier == "quick"
    return [Soup(3 if q else 5), Tokens(2 if q else 3), Pumped(tier), Lines(tier)]

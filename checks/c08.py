"""C08 — smart quotes only swap individual quote characters, and only in prose.

Function level: EVERY string up to a length bound over an alphabet of quotes, letters, spaces,
punctuation, newlines and tag delimiters through typography.smartquotes.smart_quotes().
Document level: with a = fmt(x, smartquotes=off) and b = fmt(x, smartquotes=on): same length, same
line breaks, every differing position holds ' -> one of the single curly quotes or " -> one of the double
curly quotes, no differing position inside a protected span of a, and pairing never crosses a
paragraph boundary (formatting two paragraphs together == formatting them separately).
"""
from __future__ import annotations

import itertools
import re

from vf import core, docspace
from vf.explorer import Outcome, Space
from vf.paraspace import ParaSpace

core.bind()
from flowmark import reformat_text  # noqa: E402
from flowmark.typography.smartquotes import smart_quotes  # noqa: E402

LEVEL = "exploration"
RULE = ("function level: every string of length <= N over the 12-symbol alphabet (complete enumeration); document level: every "
        "token sequence of the typography x inline x tag alphabet x separators x contexts x widths x modes x the other options; a case "
        "is non-trivial when smart quotes changed at least one character")
ASSUMPTIONS = ["protected spans of the option-off output are located by regexes for code spans, fenced code, template tags, HTML comments and "
               "tags, URLs, link destinations/titles in parentheses and backslash-escaped quotes"]

SYM = ("'", '"', "a", "s", " ", ".", "\n", "{%", "%}", "—", ")", "\\", "9")   # (the digit was appended later: '90s, 5'10")
SINGLE = "‘’"
DOUBLE = "“”"


def charwise(a, b):
    """None if b differs from a only by straight->curly swaps of the right kind, else a reason."""
    if len(a) != len(b):
        return "length"
    for x, y in zip(a, b):
        if x == y:
            continue
        if x == "'" and y in SINGLE:
            continue
        if x == '"' and y in DOUBLE:
            continue
        return "other-char"
    return None


_TAGRE = re.compile(r"\{%.*?%\}|\{#.*?#\}|\{\{.*?\}\}|<!--.*?-->", re.S)


class Fn(Space):
    prop = "C08"
    name = "function"

    def __init__(self, maxlen):
        self.maxlen = maxlen
        self.floors = {"converted": 1000, "tag-inside": 1000, "paragraph-break": 500}

    def cases(self):
        for n in range(1, self.maxlen + 1):
            yield from itertools.product(range(len(SYM)), repeat=n)

    def describe(self, case):
        return {"string": "".join(SYM[i] for i in case)}

    def smaller(self, case):
        for i in range(len(case)):
            if len(case) > 1:
                yield case[:i] + case[i + 1:]
        for i in range(len(case)):
            if case[i] != 2:
                yield case[:i] + (2,) + case[i + 1:]

    def evaluate(self, case):
        s = "".join(SYM[i] for i in case)
        out = smart_quotes(s)
        viol, tags = [], []
        if out != s:
            tags.append("converted")
        r = charwise(s, out)
        if r:
            viol.append(("fn:" + r, {"input": s, "output": out}))
        else:
            for m in _TAGRE.finditer(s):
                tags.append("tag-inside")
                if out[m.start():m.end()] != m.group(0):
                    viol.append(("fn:tag-modified", {"input": s, "output": out, "tag": m.group(0)}))
                    break
        if "\n\n" in s and not _TAGRE.search(s):
            tags.append("paragraph-break")
            parts = s.split("\n\n")
            sep = "\n\n".join(smart_quotes(p) for p in parts)
            if sep != out:
                viol.append(("fn:pairs-across-paragraphs", {"input": s, "output": out, "separately": sep}))
        return Outcome(viol=viol, tags=sorted(set(tags)))


TOK = ["aa", "'", '"', "it's", "James'", '"q', 'q"', "'q", "q'", '"q r"', "'q r'", "x=\"y\"", "\\\"e\\\"", "...",
       "`it's \"c\"`", "[l \"k\"](u'v \"t's\")", "<http://u/it's>", "http://u.v/it's", '<a title="x" alt=\'y\'>', "{% t a=\"x\" b='y' %}", "{{ v|f('x') }}",
       "<!-- it's \"c\" -->", "*it's*", "**\"b\"**", "(\"p\")", "—\"d\"", "\"q\".",
       # appended later: sentence ends that involve a closing quote (the sentence heuristic wants two letters before it)
       "\"the plan\".", "plan\".", "'so'!", "(\"ok.\")",
       # appended later: scheme-less bare URLs and e-mail autolinks (their text differs from their destination)
       "www.u.v/O'Reilly", "www.u.v/it's", "<o'r@b.cc>",
       # appended later: angle-bracket runs that are NOT inline HTML (their quotes are prose and get converted; the wrapper must
       # not treat the run differently before and after the conversion), and a private-use character
       "<your team's name>", "<y and \"z > w\" more>", "<a b='it''s'>", "\ue000",
       # appended later: a sentence that ends in a contraction (the sentence wrapper runs after the conversion and must see the same ends)
       "didn't.", "it's?", "don't!\""]   # (a URL written as link TEXT is prose: not included)
REPS = [TOK.index(t) for t in ("aa", "it's", '"q', 'q"', '"q r"', "`it's \"c\"`", "{% t a=\"x\" b='y' %}", "**\"b\"**", "<http://u/it's>")]

_PROTECT = re.compile(
    r"(`+)(?:(?!\1).)+\1"            # code spans
    r"|\{%.*?%\}|\{#.*?#\}|\{\{.*?\}\}|<!--.*?-->"   # tags, comments
    # inline HTML tags in CommonMark's sense (an angle-bracket run with a stray quote such as <your team's name> is prose)
    r"|<[a-zA-Z][a-zA-Z0-9-]*(?:\s+[a-zA-Z_:][a-zA-Z0-9_.:-]*(?:\s*=\s*(?:[^\s\"'=<>`]+|'[^']*'|\"[^\"]*\"))?)*\s*/?>|</[a-zA-Z][a-zA-Z0-9-]*\s*>"
    r"|<[a-z]+://[^>]*>|https?://\S+|www\.\S+"      # autolinks, bare URLs
    r"|\]\([^)]*\)"                  # link destination + title
    r"|\\['\"]", re.S)               # escaped quotes


def protected_ranges(a):
    rs = [m.span() for m in _PROTECT.finditer(a)]
    # fenced code blocks
    for m in re.finditer(r"(?m)^([ >]*)(`{3,}|~{3,}).*\n(?:.*\n)*?\1?\2[ ]*$", a):
        rs.append(m.span())
    return rs


def make_oracle(tier):
    others = [dict(cleanups=False, ellipses=False), dict(cleanups=True, ellipses=True)]
    if tier == "thorough":
        others += [dict(cleanups=True, ellipses=False), dict(cleanups=False, ellipses=True, list_spacing="loose")]

    def oracle(space, case, text, width, sem):
        viol, tags = [], []
        seen = set()
        for o in others:
            a = reformat_text(text, width=width, semantic=sem, smartquotes=False, **o)
            b = reformat_text(text, width=width, semantic=sem, smartquotes=True, **o)
            if a != b:
                tags.append("converted")
            r = charwise(a, b)
            sig = None
            if r:
                sig = "doc:" + r
            else:
                diffs = [i for i, (x, y) in enumerate(zip(a, b)) if x != y]
                if diffs:
                    for lo, hi in protected_ranges(a):
                        if any(lo <= i < hi for i in diffs):
                            sig = "doc:protected-span-modified"
                            break
                    if any(a[lo:hi] for lo, hi in protected_ranges(a)):
                        tags.append("has-protected-span")
            if sig and sig not in seen:
                seen.add(sig)
                viol.append((sig, {"input": text, "width": width, "semantic": sem, "other_options": o, "off": a, "on": b}))
        return Outcome(viol=viol, tags=sorted(set(tags)))

    return oracle


class TwoParas(Space):
    """Block locality: two blocks each holding an unbalanced or balanced quote; formatting them together must equal
    formatting them separately and concatenating."""

    prop = "C08"
    name = "block-locality"
    BLOCKS = ['"open only', 'close only"', "'single open", "close'", 'He said "hi" ok', "it's", "- \"item", "> \"quoted", "# \"Head",
              "| \"a | b\" |\n|---|---|", "plain", "```\n\"code\"\n```", '"multi\nline" quote']

    def __init__(self, tier):
        self.widths = (88,) if tier == "quick" else (88, 8, 0)
        self.floors = {"converted": 50}

    def cases(self):
        for i in range(len(self.BLOCKS)):
            for j in range(len(self.BLOCKS)):
                for w in self.widths:
                    for sem in (False, True):
                        yield (i, j, w, sem)

    def describe(self, case):
        i, j, w, sem = case
        return {"text": self.BLOCKS[i] + "\n\n" + self.BLOCKS[j] + "\n", "width": w, "semantic": sem}

    def smaller(self, case):
        i, j, w, sem = case
        if i != 10:
            yield (10, j, w, sem)
        if j != 10:
            yield (i, 10, w, sem)
        if sem:
            yield (i, j, w, False)
        if w != 88:
            yield (i, j, 88, sem)

    def evaluate(self, case):
        i, j, w, sem = case
        x, y = self.BLOCKS[i], self.BLOCKS[j]
        kw = dict(width=w, semantic=sem, smartquotes=True, cleanups=False)
        both = reformat_text(x + "\n\n" + y + "\n", **kw)
        sep = reformat_text(x + "\n", **kw).rstrip("\n") + "\n\n" + reformat_text(y + "\n", **kw).rstrip("\n") + "\n"
        off = reformat_text(x + "\n\n" + y + "\n", **{**kw, "smartquotes": False})
        tags = ["converted"] if both != off else []
        viol = []
        # compare modulo blank-line layout between the two blocks (list/heading spacing rules are not C08's business)
        if re.sub(r"\n{2,}", "\n\n", both).rstrip("\n") != re.sub(r"\n{2,}", "\n\n", sep).rstrip("\n"):
            viol.append(("doc:pairs-across-blocks", {"together": both, "separately": sep}))
        return Outcome(viol=viol, tags=tags)


class RefLinks(Space):
    """Reference links and images whose label / text holds quote characters, with their definitions (a paragraph token
    cannot carry a definition): every label x every way of writing the link x text before / after."""

    prop = "C08"
    name = "ref-links"
    LABELS = ["it's", '"q"', "a 'b' c", "x", "O'R \"s\""]
    FORMS = ["[{L}]", "[{L}][]", "[t {L}][{L}]", "![{L}]", "[{L}](u)", "[{L}][x]", "[it's t][{L}]"]
    AROUND = [("", ""), ("He said \"", "\" ok"), ("'", "' it's")]

    def __init__(self, tier, oracle):
        self.oracle = oracle
        self.widths = (88, 1) if tier == "quick" else (88, 12, 1, 0)
        self.floors = {"converted": 50}

    def cases(self):
        for l in range(len(self.LABELS)):
            for f in range(len(self.FORMS)):
                for a in range(len(self.AROUND)):
                    for w in self.widths:
                        for sem in (False, True):
                            yield (l, f, a, w, sem)

    def text(self, case):
        l, f, a, w, sem = case
        L = self.LABELS[l]
        pre, post = self.AROUND[a]
        return f"zz {pre}{self.FORMS[f].format(L=L)}{post} end\n\n[{L}]: http://u.v/w\n\n[x]: http://x.y 'it''s'\n"

    def describe(self, case):
        return {"text": self.text(case), "width": case[3], "semantic": case[4]}

    def smaller(self, case):
        l, f, a, w, sem = case
        if l:
            yield (0, f, a, w, sem)
        if f:
            yield (l, 0, a, w, sem)
        if a:
            yield (l, f, 0, w, sem)
        if w != 88:
            yield (l, f, a, 88, sem)
        if sem:
            yield (l, f, a, w, False)

    def evaluate(self, case):
        return self.oracle(self, case, self.text(case), case[3], case[4])


class SameText(Space):
    """Two inline scopes of one document whose visible text is identical but whose inline markup differs (a rewrite keyed on the
    text alone would hand the slices of one to the other): every ordered pair of variants x layout x width x mode."""

    prop = "C08"
    name = "same-text"
    VARIANTS = ['say "aa bb cc" it\'s', 'say "aa *bb* cc" it\'s', 'say "aa **bb** cc" it\'s', 'say "*aa* bb cc" it\'s', 'say "aa bb *cc*" it\'s',
                'say "aa [bb](u) cc" it\'s', '*say "aa bb cc" it\'s*', 'say "aa ~~bb~~ cc" it\'s', 'say "aa `bb` cc" it\'s', 'say "aa bb\ncc" it\'s']
    LAYOUTS = ["{A}\n\n{B}\n", "# {A}\n\n{B}\n", "{A}\n\n# {B}\n", "| {A} | {B} |\n|---|---|\n| {B} | {A} |\n", "- {A}\n- {B}\n", "> {A}\n\n{B}\n",
               "{A}\n\nzz[^1]\n\n[^1]: {B}\n"]

    def __init__(self, tier, oracle):
        self.oracle = oracle
        self.widths = (88, 12) if tier == "quick" else (88, 30, 12, 1, 0)
        self.floors = {"converted": 200}

    def cases(self):
        for a in range(len(self.VARIANTS)):
            for b in range(len(self.VARIANTS)):
                for l in range(len(self.LAYOUTS)):
                    for w in self.widths:
                        for sem in (False, True):
                            yield (a, b, l, w, sem)

    def text(self, case):
        a, b, l, w, sem = case
        A, B = self.VARIANTS[a], self.VARIANTS[b]
        if "|" in self.LAYOUTS[l] or "#" in self.LAYOUTS[l]:
            A, B = A.replace("\n", " "), B.replace("\n", " ")
        return self.LAYOUTS[l].replace("{A}", A).replace("{B}", B)

    def describe(self, case):
        return {"text": self.text(case), "width": case[3], "semantic": case[4]}

    def smaller(self, case):
        a, b, l, w, sem = case
        if a:
            yield (0, b, l, w, sem)
        if b:
            yield (a, 0, l, w, sem)
        if l:
            yield (a, b, 0, w, sem)
        if w != 88:
            yield (a, b, l, 88, sem)
        if sem:
            yield (a, b, l, w, False)

    def evaluate(self, case):
        return self.oracle(self, case, self.text(case), case[3], case[4])


def spaces(tier):
    q = tier == "quick"
    oracle = make_oracle(tier)
    ctx = docspace.contexts(1, ("ul", "bq", "fn"), (None,))
    kw = dict(full_upto=2, reps=REPS, max_special_seps=1)
    # the lead is longer than the minimum line length of the sentence wrapper (20), so that a sentence end inside the
    # tokens really produces a semantic line break
    para = ParaSpace("C08", "doc-para", TOK, 2 if q else 3, oracle, ctx, sepnames=("sp", "nl", "hb"), widths=(1, 30, 88),
                     lead="zz yy xx ww vv uu tt ",
                     floors={"converted": 1000, "has-protected-span": 500}, **kw)
    head = ParaSpace("C08", "doc-heading", TOK, 2, oracle, docspace.contexts(0), sepnames=("sp",), widths=(88,), lead="# zz ",
                     modes=(False,), floors={"converted": 100}, **kw)
    cell = ParaSpace("C08", "doc-cell", TOK, 2, oracle, docspace.contexts(0), sepnames=("sp",), widths=(88,), lead="| zz | ",
                     trail=" |\n|---|---|", modes=(False,), floors={"converted": 100}, **kw)
    return [Fn(6 if q else 7), para, head, cell, TwoParas(tier), RefLinks(tier, oracle), SameText(tier, oracle)]

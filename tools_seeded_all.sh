#!/bin/bash
# Developer aid: re-confirm every kept seeded change against /repo HEAD and re-run the checks recorded as detecting it.
# usage: tools_seeded_all.sh [ids...]     (scratch worktrees under /tmp, removed afterwards; /repo is never modified)
cd /verif
ids=${@:-$(ls seeded)}
for id in $ids; do
  d=seeded/$id
  prop=${id%%-*}
  checks=$(/venv/bin/python -c "import json; m=json.load(open('$d/meta.json')); print(' '.join(m.get('detected_by') or ['$prop']))")
  cp $d/meta.json /tmp/meta_$id.bak
  /venv/bin/python -c "import json; print(json.load(open('$d/meta.json'))['needs_to_manifest'])" > /tmp/notes_$id.md
  /venv/bin/python tools_seeded.py $d/patch.diff $d/demo.py $prop $checks --save $id --notes /tmp/notes_$id.md > /tmp/seedrun_$id.json 2>&1
  /venv/bin/python - "$d" <<'PY'
import json,sys
m=json.load(open(sys.argv[1]+"/meta.json"))
c=m['confirmed']
print(m['id'], 'applies' if c['patch_applies_to_repo_head'] else 'DOES-NOT-APPLY', c['existing_suite_with_patch'], 'demo', c['demo_exit_without_patch'], c['demo_exit_with_patch'], 'detected_by', m['detected_by'])
PY
done

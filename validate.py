#!/opt/veriftools/pyvenv/bin/python
"""Developer aid: validate MANIFEST.json and evidence/*.json against the given schemas (python3-vt)."""
import json, glob, sys, jsonschema
ok = True
def val(path, schema):
    global ok
    try:
        jsonschema.validate(json.load(open(path)), json.load(open(schema)))
        print("valid  ", path)
    except Exception as e:
        ok = False
        print("INVALID", path, str(e)[:300])
val("/verif/MANIFEST.json", "/root/.vp/MANIFEST.schema.json")
for f in sorted(glob.glob("/verif/evidence/*.json")):
    val(f, "/root/.vp/EVIDENCE.schema.json")
sys.exit(0 if ok else 1)

#!/venv/bin/python
"""Developer aid: confirm a candidate property-breaking change and run checks against it.

usage: tools_seeded.py <patch.diff> <demo.py> <PROP> [CHECK ...] [--tier quick]

Creates a scratch worktree of /repo HEAD under /tmp, applies the patch there, runs the repository's
test suite (must still pass), runs the demo with and without the patch, then runs the named checks
with VERIF_REPO pointing at the scratch worktree.  Removes the worktree afterwards.  /repo is never
modified.  Prints a JSON summary (used to fill /verif/seeded/<id>/meta.json).
"""
import json
import os
import re
import subprocess
import sys
import time

PY = "/venv/bin/python"


def sh(cmd, **kw):
    return subprocess.run(cmd, shell=True, capture_output=True, text=True, **kw)


def main():
    args = [a for a in sys.argv[1:] if not a.startswith("--")]
    tier = "quick"
    if "--tier" in sys.argv:
        tier = sys.argv[sys.argv.index("--tier") + 1]
        args = [a for a in args if a != tier]
    patch, demo, prop, *checks = args
    patch, demo = os.path.abspath(patch), os.path.abspath(demo)
    checks = checks or [prop]
    wt = f"/tmp/seed_wt_{os.getpid()}"
    out = {"patch": patch, "demo": demo, "property": prop, "tier": tier}
    r = sh(f"git -C /repo worktree add -q --detach {wt} HEAD")
    assert r.returncode == 0, r.stderr
    try:
        env = dict(os.environ, PYTHONPATH=f"{wt}/src")
        r = sh(f"{PY} {demo}", env=env, cwd=wt)
        out["demo_without_patch_rc"] = r.returncode
        r = sh(f"git -C {wt} apply {patch}")
        out["patch_applies"] = r.returncode == 0
        if r.returncode != 0:
            out["apply_error"] = r.stderr[-500:]
            return out
        r = sh(f"{PY} -m pytest -q -p no:cacheprovider -x 2>&1 | tail -3", env=env, cwd=wt)
        out["suite"] = r.stdout.strip().splitlines()[-1] if r.stdout.strip() else r.stderr[-200:]
        out["suite_passes"] = bool(re.search(r"\b302 passed", out["suite"])) and "failed" not in out["suite"]
        r = sh(f"{PY} {demo}", env=env, cwd=wt)
        out["demo_with_patch_rc"] = r.returncode
        out["demo_tail"] = (r.stdout + r.stderr)[-300:]
        out["checks"] = {}
        for c in checks:
            t0 = time.time()
            r = sh(f"{PY} /verif/check.py {c} --tier {tier}", env=dict(os.environ, VERIF_REPO=wt), cwd="/verif")
            viol = [l for l in r.stdout.splitlines() if l.startswith("VIOLATION")]
            detail = [l.strip() for l in r.stdout.splitlines() if l.startswith("  space=")][:3]
            out["checks"][c] = {"rc": r.returncode, "violations": len(viol), "first": detail, "harness": [l for l in r.stdout.splitlines() if "HARNESS" in l][:2],
                                "wall_s": round(time.time() - t0, 1)}
    finally:
        sh(f"git -C /repo worktree remove --force {wt}")
    return out


def save(out, sid, notes_path=None):
    import shutil
    d = f"/verif/seeded/{sid}"
    os.makedirs(d, exist_ok=True)
    for src, dst in ((out["patch"], f"{d}/patch.diff"), (out["demo"], f"{d}/demo.py")):
        if not (os.path.exists(dst) and os.path.samefile(src, dst)):
            shutil.copy(src, dst)
    needs = open(notes_path).read() if notes_path and os.path.exists(notes_path) else ""
    meta = {"id": sid, "breaks_property": out["property"], "needs_to_manifest": needs,
            "confirmed": {"patch_applies_to_repo_head": out.get("patch_applies"), "existing_suite_with_patch": out.get("suite"),
                          "demo_exit_without_patch": out.get("demo_without_patch_rc"), "demo_exit_with_patch": out.get("demo_with_patch_rc")},
            "ran": f"tools_seeded.py (scratch worktree of /repo HEAD, VERIF_REPO=<worktree>, tier {out['tier']})",
            "checks": out.get("checks", {}),
            "detected_by": sorted(c for c, v in out.get("checks", {}).items() if v["rc"] == 1 and v["violations"] > 0)}
    json.dump(meta, open(f"{d}/meta.json", "w"), indent=1, ensure_ascii=False)


if __name__ == "__main__":
    sid = notes = None
    if "--save" in sys.argv:
        i = sys.argv.index("--save")
        sid = sys.argv[i + 1]
        del sys.argv[i:i + 2]
    if "--notes" in sys.argv:
        i = sys.argv.index("--notes")
        notes = sys.argv[i + 1]
        del sys.argv[i:i + 2]
    out = main()
    print(json.dumps(out, indent=1, ensure_ascii=False))
    if sid:
        save(out, sid, notes)

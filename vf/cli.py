"""Drivers for the command line: in-process (flowmark.cli.main with cwd/stdin/stdout redirected) and as a
real subprocess (`python -m flowmark.cli`).  Scenario directories live under a private scratch root on
tmpfs so that the upward config search of main() cannot pick up a stray config file.
"""
from __future__ import annotations

import contextlib
import io
import os
import shutil
import subprocess
import sys
import tempfile

from . import core

_ROOT = None


def root():
    global _ROOT
    if _ROOT is None or not os.path.isdir(_ROOT):
        _ROOT = tempfile.mkdtemp(prefix="cli-", dir=core.scratch_root())
    return _ROOT


@contextlib.contextmanager
def scenario(files=None):
    """A fresh directory with the given files {relative path: str | bytes}; cwd is restored afterwards."""
    d = tempfile.mkdtemp(dir=root())
    try:
        for rel, content in (files or {}).items():
            p = os.path.join(d, rel)
            os.makedirs(os.path.dirname(p), exist_ok=True)
            mode = "wb" if isinstance(content, bytes) else "w"
            with open(p, mode, **({} if isinstance(content, bytes) else {"encoding": "utf8", "newline": ""})) as f:
                f.write(content)
        yield d
    finally:
        shutil.rmtree(d, ignore_errors=True)


def snapshot(d):
    out = {}
    for r, ds, fs in os.walk(d):
        for f in fs:
            p = os.path.join(r, f)
            if os.path.islink(p):
                out[os.path.relpath(p, d)] = "->" + os.readlink(p)
            else:
                with open(p, "rb") as fh:
                    out[os.path.relpath(p, d)] = fh.read().decode("utf8", "replace")
        for x in ds:
            p = os.path.join(r, x)
            if os.path.islink(p):
                out[os.path.relpath(p, d)] = "->" + os.readlink(p)
    return out


def run_inproc(argv, cwd, stdin=""):
    """Returns (exit code, stdout, stderr) of flowmark.cli.main(argv) run with cwd and redirected stdio."""
    from flowmark.cli import main

    out, err = io.StringIO(), io.StringIO()
    old_stdin, old_cwd = sys.stdin, os.getcwd()
    sys.stdin = io.StringIO(stdin)
    os.chdir(cwd)
    try:
        with contextlib.redirect_stdout(out), contextlib.redirect_stderr(err):
            try:
                code = main(list(argv))
            except SystemExit as e:
                code = e.code if isinstance(e.code, int) else (0 if e.code is None else 1)
    finally:
        sys.stdin = old_stdin
        os.chdir(old_cwd)
    return code, out.getvalue(), err.getvalue()


def run_subprocess(argv, cwd, stdin=""):
    env = dict(os.environ, PYTHONPATH=os.path.join(core.REPO, "src"), PYTHONHASHSEED="0")
    r = subprocess.run([sys.executable, "-m", "flowmark.cli"] + list(argv), cwd=cwd, input=stdin, capture_output=True, text=True, env=env,
                       timeout=120)
    return r.returncode, r.stdout, r.stderr


def run_subprocess_bytes(argv, cwd, stdin=b""):
    """Like run_subprocess, but stdin / stdout are bytes on real pipes (UTF-8 mode), so that what the command line does to the
    byte stream itself (BOM, CRLF, lone CR) is observed."""
    env = dict(os.environ, PYTHONPATH=os.path.join(core.REPO, "src"), PYTHONHASHSEED="0", PYTHONUTF8="1", LANG="C.UTF-8")
    env.pop("PYTHONIOENCODING", None)
    r = subprocess.run([sys.executable, "-m", "flowmark.cli"] + list(argv), cwd=cwd, input=stdin, capture_output=True, env=env, timeout=120)
    return r.returncode, r.stdout, r.stderr.decode("utf8", "replace")


def cleanup():
    global _ROOT
    if _ROOT and os.path.isdir(_ROOT):
        shutil.rmtree(_ROOT, ignore_errors=True)
    _ROOT = None

"""System-call level view of what a command does to a directory (conformance of the fault model, C14).

run(argv, cwd, stdin) executes the command under `strace -f -y` and returns the attempted MUTATING
system calls (successful or not) whose target lies under `cwd`, in order, as tuples
    ("open-w", rel) ("rename", a, b) ("remove", rel) ("mkdir", rel) ("rmdir", rel) ("symlink", rel)
    ("link", rel) ("truncate", rel) ("chmod", rel)
plus the number of bytes written per file (write / pwrite64 / writev / sendfile / copy_file_range).
Returns None when strace cannot be used here (not installed, ptrace not permitted).
"""
from __future__ import annotations

import os
import re
import shutil
import subprocess

TRACE = ("openat,open,creat,rename,renameat,renameat2,unlink,unlinkat,mkdir,mkdirat,rmdir,truncate,ftruncate,symlink,symlinkat,link,linkat,"
         "write,pwrite64,writev,sendfile,copy_file_range,chmod,fchmod,fchmodat")

_LINE = re.compile(r"^\d+\s+(\w+)\((.*)\)\s+= (-?\d+)(?:<([^>]*)>)?")
_STR = re.compile(r'"((?:[^"\\]|\\.)*)"')
_FD = re.compile(r"(?:\d+|AT_FDCWD)<([^>]*)>")


def _unescape(s):
    try:
        return s.encode("latin1", "backslashreplace").decode("unicode_escape").encode("latin1", "ignore").decode("utf8", "replace")
    except Exception:  # noqa: BLE001
        return s


def available():
    if not shutil.which("strace"):
        return False
    r = subprocess.run(["strace", "-o", "/dev/null", "-e", "trace=write", "/bin/true"], capture_output=True, text=True)
    return r.returncode == 0


def run(argv, cwd, stdin="", timeout=120):
    if not available():
        return None
    cwd = os.path.realpath(cwd)
    trace = cwd.rstrip("/") + ".strace"
    try:
        subprocess.run(["strace", "-f", "-y", "-s", "256", "-o", trace, "-e", "trace=" + TRACE] + list(argv), cwd=cwd, input=stdin,
                       capture_output=True, text=True, timeout=timeout)
        if not os.path.exists(trace):
            return None
        return parse(open(trace, encoding="utf8", errors="replace").read().split("\n"), cwd)
    finally:
        if os.path.exists(trace):
            os.unlink(trace)


def parse(lines, cwd):
    ops, written = [], {}

    def rel(p, base=None):
        if p is None:
            return None
        ap = p if os.path.isabs(p) else os.path.join(base or cwd, p)
        ap = os.path.normpath(ap)
        return os.path.relpath(ap, cwd) if (ap == cwd or ap.startswith(cwd + os.sep)) else None

    for line in lines:
        m = _LINE.match(line)
        if not m:
            continue
        name, args, ret, retpath = m.group(1), m.group(2), int(m.group(3)), m.group(4)
        if ret < 0 and name in ("write", "pwrite64", "writev", "sendfile", "copy_file_range"):
            continue
        # (failed attempts of the other calls are kept: the harness numbers attempts, e.g. the mkdir of an existing directory)
        if name in ("write", "pwrite64", "writev"):
            fm = _FD.match(args)
            p = rel(fm.group(1)) if fm and fm.group(1).startswith("/") else None
            if p is not None:
                written[p] = written.get(p, 0) + ret
            continue
        if name == "sendfile":
            fm = _FD.match(args)
            p = rel(fm.group(1)) if fm and fm.group(1).startswith("/") else None
            if p is not None:
                written[p] = written.get(p, 0) + ret
            continue
        if name == "copy_file_range":
            fds = _FD.findall(args)
            p = rel(fds[1]) if len(fds) > 1 and fds[1].startswith("/") else None
            if p is not None:
                written[p] = written.get(p, 0) + ret
            continue
        strs = [_unescape(x) for x in _STR.findall(args)]
        fds = _FD.findall(args)
        base = fds[0] if (name.endswith("at") or name == "renameat2") and fds and fds[0].startswith("/") else None
        if name in ("openat", "open", "creat"):
            if name == "creat" or re.search(r"O_WRONLY|O_RDWR|O_CREAT|O_TRUNC|O_APPEND", args):
                # the path as the program named it (the annotated descriptor shows the link-resolved path)
                p = rel(strs[0], base) if strs else (rel(retpath) if retpath and retpath.startswith("/") else None)
                if p is not None:
                    ops.append(("open-w", p))
        elif name in ("rename", "renameat", "renameat2"):
            if len(strs) >= 2:
                base2 = fds[1] if len(fds) > 1 and fds[1].startswith("/") else base
                a, b = rel(strs[0], base), rel(strs[1], base2)
                if a is not None or b is not None:
                    ops.append(("rename", a, b))
        elif name in ("unlink", "unlinkat"):
            p = rel(strs[0], base) if strs else None
            if p is not None:
                ops.append(("rmdir" if "AT_REMOVEDIR" in args else "remove", p))
        elif name in ("mkdir", "mkdirat", "rmdir", "truncate", "chmod", "fchmodat"):
            p = rel(strs[0], base) if strs else None
            if p is not None:
                ops.append(({"mkdirat": "mkdir", "fchmodat": "chmod"}.get(name, name), p))
        elif name in ("symlink", "symlinkat", "link", "linkat"):
            p = rel(strs[-1], fds[-1] if fds and fds[-1].startswith("/") else None) if strs else None
            if p is not None:
                ops.append((name.replace("at", ""), p))
        elif name in ("ftruncate", "fchmod"):
            fm = _FD.match(args)
            p = rel(fm.group(1)) if fm and fm.group(1).startswith("/") else None
            if p is not None:
                ops.append(({"ftruncate": "truncate", "fchmod": "chmod"}[name], p))
    return ops, written

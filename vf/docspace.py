"""Document grammar shared by the document-level checks: containers, contexts, separators, alphabets.

Documents are built from tokens the code recognises, not from characters.  Everything here is a
pure function of its arguments so that a case (a small tuple) always denotes the same text.
"""
from __future__ import annotations

import itertools

# --- container layers -------------------------------------------------------------------------
# name -> (first-line prefix, continuation prefix, blank-line form, optional header line)
LAYERS = {
    "ul": ("- ", "  ", "", None),
    "ul*": ("* ", "  ", "", None),
    "ol": ("1. ", "   ", "", None),
    "ol10": ("10. ", "    ", "", None),
    "ol)": ("2) ", "   ", "", None),
    "bq": ("> ", "> ", ">", None),
    "fn": ("[^n]: ", "    ", "", None),
    "fnlong": ("[^longlabel]: ", "    ", "", None),
    "alert": ("> ", "> ", ">", "> [!NOTE]"),
}


def wrap_layer(lines, layer):
    first, cont, blank, header = LAYERS[layer]
    out = []
    if header:
        out.append(header)
    for i, ln in enumerate(lines):
        if ln == "":
            out.append(blank)
        elif i == 0:
            out.append(first + ln)
        else:
            out.append(cont + ln)
    return out


def in_context(block_lines, layers=(), before=None, after=None):
    """Wrap the focus block in container layers (innermost first in `layers`) and add neighbours.

    before/after: None | 'p' | 'h' | 'ul' | 'hr' — a sibling block before/after the focus block
    INSIDE the innermost container (so the renderer's prefix/blank-line flags are driven through
    every predecessor/successor combination).
    """
    lines = list(block_lines)
    pre = {"p": ["before"], "h": ["# Head"], "ul": ["- li"], "hr": ["***"], None: None}[before]
    post = {"p": ["after"], "h": ["# Tail"], "ul": ["- li"], "hr": ["***"], None: None}[after]
    if pre:
        lines = pre + [""] + lines
    if post:
        lines = lines + [""] + post
    for layer in layers:
        lines = wrap_layer(lines, layer)
    return "\n".join(lines) + "\n"


def contexts(max_depth, layer_names=("ul", "ol", "bq", "fn"), neighbours=(None,)):
    """All (layers, before, after) with depth <= max_depth.  fn layers only outermost."""
    out = []
    for d in range(max_depth + 1):
        for ls in itertools.product(layer_names, repeat=d):
            # footnote definitions are only meaningful as the outermost container
            if any(l.startswith("fn") for l in ls[:-1]):
                continue
            for b in neighbours:
                for a in neighbours:
                    out.append((ls, b, a))
    return out


def indent_of(layers):
    """(first-line indent string, continuation indent string) that the renderer should use for a
    paragraph that is the first block inside these layers (innermost first)."""
    first = cont = ""
    for layer in layers:
        f, c, _, header = LAYERS[layer]
        # renderer normalises markers: bullets keep their char, ordered renumbered from start
        first = f + first if not header else c + first
        cont = c + cont
    return first, cont


# --- separators between paragraph tokens ---------------------------------------------------------
SEPS = {"sp": " ", "sp2": "  ", "nl": "\n", "nli": "\n   ", "hb": "\\\n", "hb2": "  \n", "adj": ""}


def join_tokens(tokens, seps):
    """tokens: list of str; seps: list of separator names (len(tokens)-1)."""
    out = [tokens[0]] if tokens else []
    for t, s in zip(tokens[1:], seps):
        out.append(SEPS[s])
        out.append(t)
    return "".join(out)


def para_lines(text):
    return text.split("\n")

"""Span extractor: the non-prose spans of a document as sequences, by kind.

Code blocks (info, content), code spans, inline HTML, autolinks / bare URLs, link and image
(destination, title), reference definitions (label, destination, title) come from Reader A's tree.
Template tags and HTML comments come from a small hand scanner over the raw text (NOT the
repository's regexes), skipping fenced / indented code.
"""
from __future__ import annotations

import re

from . import readers

_WS = re.compile(r"\s+")


def _walk(node, out):
    label, attrs, kids = node
    a = dict(attrs)
    if label == "CODE":
        out["codeblock"].append((a["lang"], a["extra"], a["content"]))
    elif label == "CODESPAN":
        out["codespan"].append(a["s"])
    elif label == "HTML":
        out["html"].append(a["s"])
    elif label == "AUTOLINK":
        out["autolink"].append(a["dest"])
    elif label == "LINK":
        out["link"].append((a["dest"], a["title"]))
    elif label == "IMG":
        out["image"].append((a["dest"], a["title"]))
    elif label == "DEF":
        out["def"].append((a["label"], a["dest"], _deftitle(a["title"])))
    elif label == "FNREF":
        out["fnref"].append(a["label"])
    elif label == "FNDEF":
        out["fndef"].append(a["label"])
    for k in kids:
        _walk(k, out)


def _deftitle(t):
    """Title of a definition as Marko stores it (with delimiters) -> the title text."""
    if not t:
        return None
    if len(t) >= 2 and ((t[0] == t[-1] and t[0] in "\"'") or (t[0] == "(" and t[-1] == ")")):
        inner = t[1:-1]
        return re.sub(r"\\([\"'()\\])", r"\1", inner)
    return t


def scan_tags(text):
    """Template tags and HTML comments in document order, whitespace runs collapsed.
    A hand scanner: at each position try the four openers, find the first matching closer."""
    out = []
    i = 0
    n = len(text)
    pairs = (("{%", "%}"), ("{#", "#}"), ("{{", "}}"), ("<!--", "-->"))
    while i < n:
        hit = None
        for o, c in pairs:
            if text.startswith(o, i):
                j = text.find(c, i + len(o))
                if j >= 0:
                    hit = (i, j + len(c))
                break
        if hit:
            out.append(_WS.sub(" ", _strip_prefixes(text[hit[0]:hit[1]])))
            i = hit[1]
        else:
            i += 1
    return out


def _strip_prefixes(s):
    # a tag that spans lines inside a container carries the container prefix on continuation lines
    return re.sub(r"\n[ >]*", "\n", s)


def _strip_code(text, tree):
    """Remove the content of code blocks and code spans from the raw text before scanning for tags."""
    out = text
    acc = {"codeblock": [], "codespan": [], "html": [], "autolink": [], "link": [], "image": [], "def": [], "fnref": [], "fndef": []}
    _walk(tree, acc)
    for _, _, content in acc["codeblock"]:
        for ln in content.split("\n"):
            if ln.strip():
                out = out.replace(ln, "", 1)
    for cs in acc["codespan"]:
        if cs.strip():
            out = out.replace(cs, "", 1)
    return out


def _norm_label(s):
    return _WS.sub(" ", s).strip().casefold()


_BRACKETS = re.compile(r"(?<![\\\]])\[((?:[^\[\]\\]|\\.)+)\](\[((?:[^\[\]\\]|\\.)*)\]|\(|:)?")


def scan_refs(text, labels):
    """Reference labels USED by links and images, in document order: `[t][label]`, `[label][]`, and `[label]` when that label
    is defined.  A hand scanner over the raw text without code (Marko's tree does not keep how a link was written)."""
    out = []
    for m in _BRACKETS.finditer(text):
        inner, tail, lab = m.group(1), m.group(2), m.group(3)
        if inner.startswith("^"):
            continue  # footnote reference
        if tail is None:
            if _norm_label(inner) in labels:
                out.append(_norm_label(inner))
        elif tail.startswith("["):
            out.append(_norm_label(lab) if lab.strip() else _norm_label(inner))
    return out


def spans(text):
    tree = readers.norm_a(text)
    out = {"codeblock": [], "codespan": [], "html": [], "autolink": [], "link": [], "image": [], "def": [], "fnref": [], "fndef": []}
    _walk(tree, out)
    nocode = _strip_code(text, tree)
    out["tag"] = scan_tags(nocode)
    out["ref"] = scan_refs(_strip_prefixes("\n" + nocode), {_norm_label(d[0]) for d in out["def"]})
    return {k: tuple(v) for k, v in out.items()}


def first_span_diff(a, b):
    """(kind, index) of the first difference between two span dicts, or None."""
    for k in a:
        if a[k] != b[k]:
            for i, (x, y) in enumerate(zip(a[k], b[k])):
                if x != y:
                    return k, i
            return k, min(len(a[k]), len(b[k]))
    return None

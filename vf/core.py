"""Binding to the code under test + small shared helpers.

Every check process calls bind() first: it puts $VERIF_REPO/src (default /repo/src) in front of
sys.path and asserts that `flowmark` is imported from there, so a check always executes the
current working tree of the repository it was pointed at.
"""
from __future__ import annotations

import hashlib
import json
import os
import sys

VERIF_DIR = os.path.dirname(os.path.dirname(os.path.abspath(__file__)))
REPO = os.path.abspath(os.environ.get("VERIF_REPO", "/repo"))
GUARD = "FLOWMARK_VERIF"  # no source hooks exist; the variable is set for uniformity only


def bind():
    src = os.path.join(REPO, "src")
    if sys.path[0] != src:
        sys.path.insert(0, src)
    os.environ.setdefault(GUARD, "1")
    import flowmark  # noqa

    f = os.path.abspath(flowmark.__file__)
    if not f.startswith(src + os.sep):
        raise SystemExit(f"HARNESS ERROR: flowmark imported from {f}, expected under {src}")
    return flowmark


def seed() -> int:
    try:
        return int(os.environ.get("VERIF_SEED", "0"))
    except ValueError:
        return 0


def tier(default: str = "quick") -> str:
    t = os.environ.get("VERIF_TIER", default)
    return t if t in ("quick", "thorough") else default


def canon(obj) -> str:
    """Canonical JSON of a case (tuples become lists)."""
    return json.dumps(obj, ensure_ascii=False, sort_keys=True, separators=(",", ":"))


def h(obj) -> str:
    if not isinstance(obj, str):
        obj = canon(obj)
    return hashlib.sha1(obj.encode("utf8", "surrogatepass")).hexdigest()[:12]


def scratch_root() -> str:
    """Private scratch directory on tmpfs (fallback $TMPDIR).  The main check process creates it (and removes it at
    exit, see check.py); forked workers inherit it through $VF_SCRATCH."""
    d = os.environ.get("VF_SCRATCH")
    if d and os.path.isdir(d):
        return d
    for base in ("/dev/shm", os.environ.get("TMPDIR") or "/tmp"):
        if os.path.isdir(base) and os.access(base, os.W_OK):
            d = os.path.join(base, f"vf-{os.getuid()}-{os.getpid()}")
            os.makedirs(d, exist_ok=True)
            os.environ["VF_SCRATCH"] = d
            return d
    raise SystemExit("HARNESS ERROR: no writable scratch directory")


def remove_scratch():
    import shutil

    d = os.environ.pop("VF_SCRATCH", None)
    if d and os.path.basename(d).startswith("vf-") and os.path.isdir(d):
        shutil.rmtree(d, ignore_errors=True)

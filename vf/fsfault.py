"""Fault / crash injection for file-system operations of a child process.

execute(setup, body, crash_at=k | fault_at=(k, errno) ...) forks; the child installs
  * an audit hook (open, os.rename, os.mkdir, os.remove, os.rmdir, os.truncate, os.symlink, shutil.*) — the
    hook sees every such operation whatever Python API issued it and can veto it by raising, and
  * wrappers around io.open / builtins.open and os.open / os.write / os.close so that write / close of files opened
    for writing (through either API) become numbered operations with a byte-prefix parameter (torn writes),
restricted to paths under the scenario directory, then runs `body(dir)`.  Operation k (1-based) can be
a crash point (the child _exit()s before performing it; for a write after an arbitrary byte prefix
has reached the file) or a fault (the operation is not performed and OSError(errno) is raised).
The parent collects the operation log through a pipe and snapshots the tree.
"""
from __future__ import annotations

import builtins
import io
import json
import os
import shutil
import sys
import tempfile

from . import core

CRASH_EXIT = 77


class Injector:
    def __init__(self, root, crash_at=None, torn=None, faults=None):
        self.root = os.path.realpath(root)
        self.k = 0
        self.crash_at = crash_at
        self.torn = torn
        self.faults = dict(faults or {})  # op index -> errno
        self.log = []
        self.fired = []
        self.logfd = None
        self.active = True

    def _inside(self, p):
        try:
            p = os.fspath(p)
        except TypeError:
            return False
        if isinstance(p, bytes):
            p = p.decode("utf8", "replace")
        ap = os.path.abspath(p)  # relative paths are relative to the child's cwd (inside the scenario)
        return ap == self.root or ap.startswith(self.root + os.sep)

    def _die(self):
        os.write(self.logfd, json.dumps({"log": self.log, "fired": self.fired}).encode())
        os._exit(CRASH_EXIT)

    def op(self, name, *args):
        if not self.active:
            return
        self.k += 1
        self.log.append([self.k, name] + [str(a) for a in args])
        if self.crash_at == self.k:
            self.fired.append(["crash", self.k, name])
            self._die()
        if self.k in self.faults:
            e = self.faults[self.k]
            self.fired.append(["fault", self.k, name, e])
            raise OSError(e, os.strerror(e))

    def install(self):
        inj = self

        def audit(ev, args):
            if not inj.active:
                return
            if ev == "os.rename" and (inj._inside(args[0]) or inj._inside(args[1])):
                inj.op("rename", os.path.relpath(os.path.abspath(os.fspath(args[0])), inj.root), os.path.relpath(os.path.abspath(os.fspath(args[1])), inj.root))
            elif ev in ("os.mkdir", "os.remove", "os.rmdir", "os.truncate", "os.symlink", "os.link") and inj._inside(args[0]):
                inj.op(ev.split(".")[1], os.path.relpath(os.path.abspath(os.fspath(args[0])), inj.root))
            elif ev.startswith("shutil.") and args and inj._inside(args[0]):
                inj.op(ev, os.path.relpath(os.path.abspath(os.fspath(args[0])), inj.root))

        sys.addaudithook(audit)
        real_open = io.open

        fdtable = {}   # descriptors opened for writing through os.open below the scenario directory -> relative path
        real_os_open, real_os_write, real_os_close = os.open, os.write, os.close
        wflags = os.O_WRONLY | os.O_RDWR | os.O_CREAT | os.O_TRUNC | os.O_APPEND

        def my_os_open(path, flags, mode=0o777, *, dir_fd=None):
            if inj.active and dir_fd is None and (flags & wflags) and inj._inside(path):
                rel = os.path.relpath(os.path.abspath(os.fspath(path)), inj.root)
                inj.op("open-w", rel, "os.open:%o" % flags)
                fd = real_os_open(path, flags, mode)
                fdtable[fd] = rel
                return fd
            if dir_fd is None:
                return real_os_open(path, flags, mode)
            return real_os_open(path, flags, mode, dir_fd=dir_fd)

        def my_os_write(fd, data):
            rel = fdtable.get(fd) if inj.active else None
            if rel is None:
                return real_os_write(fd, data)
            inj.k += 1
            inj.log.append([inj.k, "write", rel, len(data)])
            if inj.crash_at == inj.k:
                j = inj.torn or 0
                real_os_write(fd, bytes(data)[:j])
                inj.fired.append(["crash", inj.k, "write", j])
                inj._die()
            if inj.k in inj.faults:
                e = inj.faults[inj.k]
                if inj.torn:
                    real_os_write(fd, bytes(data)[:inj.torn])
                inj.fired.append(["fault", inj.k, "write", e])
                raise OSError(e, os.strerror(e))
            return real_os_write(fd, data)

        def my_os_close(fd):
            fdtable.pop(fd, None)
            return real_os_close(fd)

        os.open, os.write, os.close = my_os_open, my_os_write, my_os_close

        def my_open(file, mode="r", *a, **kw):
            if isinstance(file, int) and inj.active and file in fdtable and any(c in mode for c in "wax+"):
                return _Proxy(real_open(file, mode, *a, **kw), inj, fdtable[file])   # os.fdopen of a descriptor we track
            if isinstance(file, int) or not inj.active or not inj._inside(file):
                return real_open(file, mode, *a, **kw)
            rel = os.path.relpath(os.path.abspath(os.fspath(file)), inj.root)
            writing = any(c in mode for c in "wax+")
            inj.op("open-w" if writing else "open-r", rel, mode)
            f = real_open(file, mode, *a, **kw)
            return _Proxy(f, inj, rel) if writing else f

        io.open = my_open
        builtins.open = my_open


class _Proxy:
    def __init__(self, f, inj, rel):
        object.__setattr__(self, "_f", f)
        object.__setattr__(self, "_inj", inj)
        object.__setattr__(self, "_rel", rel)
        object.__setattr__(self, "_pending", None)

    def write(self, data):
        inj = self._inj
        if not inj.active:
            return self._f.write(data)
        inj.k += 1
        inj.log.append([inj.k, "write", self._rel, len(data)])
        if inj.crash_at == inj.k:
            j = inj.torn or 0
            self._f.write(data[:j])
            self._f.flush()
            inj.fired.append(["crash", inj.k, "write", j])
            inj._die()
        if inj.k in inj.faults and isinstance(inj.faults[inj.k], (list, tuple)):
            # deferred fault: the buffered writer accepts the data (only a prefix, or nothing, reaches the file) and the
            # error surfaces at the next flush / close of this file -- exactly what ENOSPC does to a small buffered write.
            # A program that never closes the file explicitly only meets the error in __del__, where it is dropped.
            e = inj.faults[inj.k][0]
            if inj.torn:
                self._f.write(data[:inj.torn])
                self._f.flush()
            inj.fired.append(["fault-deferred", inj.k, "write", e])
            object.__setattr__(self, "_pending", e)
            return len(data)
        if inj.k in inj.faults:
            e = inj.faults[inj.k]
            # a failing write may have written a prefix already (short write + error)
            if inj.torn:
                self._f.write(data[:inj.torn])
                self._f.flush()
            inj.fired.append(["fault", inj.k, "write", e])
            raise OSError(e, os.strerror(e))
        r = self._f.write(data)
        self._f.flush()
        return r

    def flush(self):
        if self._pending is not None:
            raise OSError(self._pending, os.strerror(self._pending))
        return self._f.flush()

    def close(self):
        if not self._f.closed:
            self._inj.op("close", self._rel)
        r = self._f.close()
        if self._pending is not None:
            e = self._pending
            object.__setattr__(self, "_pending", None)
            raise OSError(e, os.strerror(e))   # like BufferedWriter.close(): the descriptor is closed, the flush error is raised
        return r

    def __del__(self):
        try:
            if not self._f.closed:
                self.close()
        except BaseException:  # noqa: BLE001  -- IOBase.__del__ drops errors of the implicit close
            pass

    def __enter__(self):
        return self

    def __exit__(self, *a):
        self.close()

    def __getattr__(self, n):
        return getattr(self._f, n)

    def __iter__(self):
        return iter(self._f)


def snapshot(d):
    out = {}
    for r, ds, fs in os.walk(d):
        for name in fs + [x for x in ds if os.path.islink(os.path.join(r, x))]:
            p = os.path.join(r, name)
            rel = os.path.relpath(p, d)
            if os.path.islink(p):
                out[rel] = "->" + os.readlink(p)
            else:
                with open(p, "rb") as fh:
                    out[rel] = fh.read().decode("utf8", "backslashreplace")
        for x in ds:
            if not os.path.islink(os.path.join(r, x)) and not os.listdir(os.path.join(r, x)):
                out[os.path.relpath(os.path.join(r, x), d) + "/"] = "<empty dir>"
    return out


def execute(setup, body, crash_at=None, torn=None, faults=None, stdin_text=""):
    """-> (exit code, op log, fired, snapshot dict).  Exit CRASH_EXIT = killed at the crash point."""
    d = tempfile.mkdtemp(prefix="ff-", dir=core.scratch_root())
    try:
        setup(d)
        rfd, wfd = os.pipe()
        sys.stdout.flush()
        pid = os.fork()
        if pid == 0:
            code = 99
            try:
                os.close(rfd)
                os.chdir(d)
                devnull = os.open(os.devnull, os.O_WRONLY)
                os.dup2(devnull, 1)
                os.dup2(devnull, 2)
                sys.stdin = io.StringIO(stdin_text)
                inj = Injector(d, crash_at, torn, faults)
                inj.logfd = wfd
                inj.install()
                try:
                    code = body(d)
                except SystemExit as e:
                    code = e.code if isinstance(e.code, int) else 1
                except BaseException:  # noqa: BLE001
                    code = 98
                inj.active = False
                os.write(wfd, json.dumps({"log": inj.log, "fired": inj.fired}).encode())
            finally:
                os._exit(code if isinstance(code, int) else 1)
        os.close(wfd)
        data = b""
        while True:
            b = os.read(rfd, 65536)
            if not b:
                break
            data += b
        os.close(rfd)
        _, st = os.waitpid(pid, 0)
        info = json.loads(data or b'{"log": [], "fired": []}')
        code = os.WEXITSTATUS(st) if os.WIFEXITED(st) else -os.WTERMSIG(st)
        return code, info["log"], info["fired"], snapshot(d)
    finally:
        shutil.rmtree(d, ignore_errors=True)

"""A small reference implementation of gitignore pattern matching (written from the gitignore
documentation, independent of the pathspec library), used by the C17 reference walk.

rules = compile_rules(lines); ignored(rules, relpath, is_dir) decides a path relative to the directory
the rules belong to.  Last matching rule wins; a path below an ignored directory is ignored (git does
not descend), so callers that walk a tree should prune ignored directories.
"""
from __future__ import annotations

import re


def _glob_to_re(pat):
    out = []
    i = 0
    while i < len(pat):
        c = pat[i]
        if c == "*":
            if pat[i:i + 2] == "**":
                # "**/" = any number of directories; "/**" = everything below; otherwise like "*"
                if pat[i:i + 3] == "**/" and (i == 0 or pat[i - 1] == "/"):
                    out.append("(?:.*/)?")
                    i += 3
                    continue
                if i + 2 == len(pat) and i > 0 and pat[i - 1] == "/":
                    out.append(".+")
                    i += 2
                    continue
                out.append("[^/]*")
                i += 2
                continue
            out.append("[^/]*")
        elif c == "?":
            out.append("[^/]")
        elif c == "\\" and i + 1 < len(pat):
            out.append(re.escape(pat[i + 1]))
            i += 1
        else:
            out.append(re.escape(c))
        i += 1
    return "".join(out)


def compile_rules(lines):
    rules = []
    for line in lines:
        line = line.rstrip("\n")
        if not line.strip() or line.startswith("#"):
            continue
        # trailing spaces are ignored unless escaped
        while line.endswith(" ") and not line.endswith("\\ "):
            line = line[:-1]
        neg = line.startswith("!")
        if neg:
            line = line[1:]
        if line.startswith("\\#") or line.startswith("\\!"):
            line = line[1:]
        dir_only = line.endswith("/")
        pat = line.rstrip("/")
        anchored = "/" in pat
        pat = pat.lstrip("/")
        if not pat:
            continue
        rules.append((neg, dir_only, anchored, re.compile(_glob_to_re(pat) + r"\Z")))
    return rules


def _match_one(rule, relpath, is_dir):
    neg, dir_only, anchored, rx = rule
    if dir_only and not is_dir:
        return False
    if anchored:
        return bool(rx.match(relpath))
    return bool(rx.match(relpath.rsplit("/", 1)[-1]))


def decide(rules, relpath, is_dir):
    """True = ignored, False = explicitly re-included, None = no rule matches (this path itself)."""
    verdict = None
    for rule in rules:
        if _match_one(rule, relpath, is_dir):
            verdict = not rule[0]
    return verdict


def ignored(rules, relpath, is_dir):
    """Decision for relpath including its parent directories (an ignored parent cannot be re-entered)."""
    parts = relpath.split("/")
    for k in range(1, len(parts)):
        if decide(rules, "/".join(parts[:k]), True):
            return True
    return bool(decide(rules, relpath, is_dir))

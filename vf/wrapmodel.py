"""Reference models for the line filler, written from the text of properties C05 / C11.

greedy():  state = (column, line_nonempty, first_line); event = next word.  A word is appended to
the current line if column + len + (1 if line non-empty) <= width, otherwise the current line is
closed (if non-empty) and the word starts the next line at the continuation offset.  A word that
starts a wrapped (non-first) line of Markdown text and is a block marker gets a protecting backslash.

The postcondition predicates are deliberately independent of the model.
"""
from __future__ import annotations

import re

_MARK = re.compile(r"^([-*+]|#+|=+|-{2,}|\*{3,}|_{3,})$|^>|^`{3,}|^~{3,}")
_NUM = re.compile(r"^[0-9]+[.)]$")


def is_marker(word: str) -> bool:
    return bool(_MARK.match(word) or _NUM.match(word))


_ALONE = re.compile(r"^(-{2,}|\*{2,}|_{3,})$|^`{3,}[^`]*$|^~{3,}")


def _bs(word: str) -> str:
    """One backslash in front of the word; a run of * or _ is escaped character by character (after `\\*` the rest could
    still open or close emphasis)."""
    if word[0] in "*_":
        return "".join("\\" + c for c in word)
    return "\\" + word


def protect(word: str) -> str:
    if _NUM.match(word):
        return word[:-1] + "\\" + word[-1]
    if _MARK.match(word):
        return _bs(word)
    return word


def protect_alone(word: str) -> str:
    """The first word of a paragraph left alone on its line: a rule or a fence needs protection there."""
    return _bs(word) if _ALONE.match(word) else word


def unprotect(word: str) -> str:
    """Inverse of protect (and of any single protecting backslash in front of punctuation)."""
    m = re.match(r"^([0-9]+)\\([.)])$", word)
    if m:
        return m.group(1) + m.group(2)
    if re.match(r"^(?:\\[*_])+$", word):
        return word.replace("\\", "")
    if len(word) >= 2 and word[0] == "\\" and not word[1].isalnum() and not word[1].isspace():
        return word[1:]
    return word


def greedy(words, width, col0=0, off=0, markdown=False, trace=None):
    """Returns list of lines (each a list of words).  `trace`, if a list, receives the visited
    model states (col, nonempty, first) — one per transition."""
    if width <= 0:
        return [list(words)] if words else []
    lines = []
    cur = []
    col = col0
    first = True
    for w in words:
        need = len(w) + (1 if cur else 0)
        if col + need <= width:
            cur.append(w)
            col += need
        else:
            if cur:
                if markdown and first and len(cur) == 1:
                    cur = [protect_alone(cur[0])]
                lines.append(cur)
                first = False
                start = off
            else:
                start = col  # nothing was emitted: the word stays on the current (still empty) line
            ww = protect(w) if (markdown and not first) else w
            cur = [ww]
            col = start + len(ww)
        if trace is not None:
            trace.append((min(col, width + 3), bool(cur), first))
    if cur:
        lines.append(cur)
    return lines


# --- postconditions ---------------------------------------------------------------------------
def post_lossless(lines, words):
    """lines: list[list[str]] (already split into words).  Word sequence preserved up to protection."""
    got = [w for ln in lines for w in ln]
    if got == list(words):
        return True
    if len(got) != len(words):
        return False
    for i, (g, w) in enumerate(zip(got, words)):
        if g == w:
            continue
        if unprotect(g) != w:
            return False
    # a protecting backslash is only legitimate at the start of a line
    starts = set()
    k = 0
    for ln in lines:
        starts.add(k)
        k += len(ln)
    return all(g == w or i in starts for i, (g, w) in enumerate(zip(got, words)))


def line_len(ln):
    return sum(len(w) for w in ln) + max(0, len(ln) - 1)


def post_bounded(lines, width, col0, off):
    if width <= 0:
        return len(lines) <= 1
    for i, ln in enumerate(lines):
        start = col0 if i == 0 else off
        if start + line_len(ln) > width and len(ln) > 1:
            return False
    return True


def post_maximal(lines, width, col0, off):
    if width <= 0:
        return len(lines) <= 1
    for i in range(1, len(lines)):
        start = col0 if i == 1 else off
        prev = lines[i - 1]
        nxt = unprotect(lines[i][0])
        if start + line_len(prev) + 1 + len(nxt) <= width:
            return False
    return True

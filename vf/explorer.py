"""Bounded-exhaustive explorer shared by every check.

A *space* is a finite set of cases with a deterministic enumeration, an oracle (`evaluate`) and a
`smaller` relation.  `explore` evaluates the oracle on EVERY case of every space (sharded over
forked workers; the seed only rotates which worker gets which case and which cases are copied into
the evidence samples), reduces each violating case to a locally minimal violator with the same
signature by deterministic descent along `smaller`, and returns merged, measured counters.

`finish` compares the minimal (space, signature, case) triples with KNOWN_FINDINGS.txt, re-evaluates
every unlisted violator in a fresh subprocess, writes replay artefacts and the evidence file, and
returns the process exit code (0 held / 1 violation / 2 harness error).
"""
from __future__ import annotations

import json
import multiprocessing as mp
import os
import signal
import subprocess
import sys
import time
import traceback
from collections import Counter

from . import core

NWORKERS = int(os.environ.get("VERIF_WORKERS", str(min(16, os.cpu_count() or 1))))
CASE_TIMEOUT_S = int(os.environ.get("VERIF_CASE_TIMEOUT", "30"))
MAX_REPORTED = 40
MAX_CONFIRM_PER_SIG = 6


class CaseTimeout(BaseException):
    pass


class Outcome:
    """Result of the oracle on one case.

    viol   list of (signature, detail-dict) — empty when the property held on this case
    tags   names of oracle clauses whose precondition really held (non-vacuity counters)
    obs    hashable summary of the observed behaviour (distinct outcomes are counted)
    states / transitions / traces : model-level bookkeeping for model_checking evidence
    """

    __slots__ = ("viol", "tags", "obs", "states", "transitions", "traces")

    def __init__(self, viol=(), tags=(), obs=None, states=(), transitions=0, traces=0):
        self.viol = list(viol)
        self.tags = tuple(tags)
        self.obs = obs
        self.states = states
        self.transitions = transitions
        self.traces = traces


class Space:
    """Base class.  Subclasses set `name`, `prop` and implement cases()/evaluate()/smaller()."""

    name = "space"
    prop = "C00"
    floors: dict = {}  # tag -> minimal count required (vacuity guard)

    def cases(self):
        raise NotImplementedError

    def shard(self, w, n, rot):
        """Cases of worker w out of n.  Default: full enumeration, keep every n-th case."""
        for i, c in enumerate(self.cases()):
            if ((i >> 6) + rot) % n == w:  # chunks of 64 consecutive cases keep per-input caches warm
                yield c

    def evaluate(self, case) -> Outcome:
        raise NotImplementedError

    def smaller(self, case):
        return ()

    def describe(self, case):
        """JSON-able, human-readable rendering of a case (for samples and replay files)."""
        return case

    def replay_source(self, case, sig, detail, tier="thorough") -> str:
        return (
            "# Replays one violating case without the explorer.\n"
            "import sys; sys.path.insert(0, %r)\n"
            "from vf import core; core.bind()\n"
            "import importlib\n"
            "mod = importlib.import_module(%r)\n"
            "sp = [s for s in mod.spaces(%r) if s.name == %r][0]\n"
            "case = sp.decode(%r)\n"
            "out = sp.evaluate(case)\n"
            "sigs = [s for s, _ in out.viol]\n"
            "print('signatures:', sigs)\n"
            "assert %r not in sigs, 'property %s violated: ' + repr(out.viol)\n"
            % (core.VERIF_DIR, _check_module(self), tier, self.name, core.canon(case), sig, self.prop)
        )

    def decode(self, canon_json: str):
        """Inverse of core.canon for this space's cases (lists -> tuples)."""
        return _tuplify(json.loads(canon_json))


def _check_module(space):
    return "checks." + space.prop.lower()


def _tuplify(x):
    if isinstance(x, list):
        return tuple(_tuplify(v) for v in x)
    if isinstance(x, dict):
        return {k: _tuplify(v) for k, v in x.items()}
    return x


# ---------------------------------------------------------------------------------------------
_SPACES: list = []


def _alarm(signum, frame):
    raise CaseTimeout()


def safe_eval(sp, case) -> Outcome:
    signal.setitimer(signal.ITIMER_REAL, CASE_TIMEOUT_S)
    try:
        return sp.evaluate(case)
    except CaseTimeout:
        return Outcome(viol=[("TIMEOUT", {"seconds": CASE_TIMEOUT_S})])
    except RecursionError:
        return Outcome(viol=[("EXC:RecursionError", {})])
    except Exception as e:  # an exception escaping flowmark (or the oracle) is reported, never swallowed
        return Outcome(viol=[("EXC:" + type(e).__name__, {"trace": traceback.format_exc()[-1500:]})])
    finally:
        signal.setitimer(signal.ITIMER_REAL, 0)


def _descend(sp, case, sig, sigmemo, endmemo, budget):
    """Follow `smaller` while the same signature persists; return the local minimum."""
    path = []
    cur = case
    while True:
        key = (core.canon(cur), sig)
        if key in endmemo:
            end = endmemo[key]
            break
        path.append(key)
        if len(path) > 5000:
            raise RuntimeError("HARNESS ERROR: descent along `smaller` does not terminate (cycle in the shrinking relation?)")
        nxt = None
        for nb in sp.smaller(cur):
            k = core.canon(nb)
            sigs = sigmemo.get(k)
            if sigs is None:
                budget[0] += 1
                sigs = {s: d for s, d in safe_eval(sp, nb).viol}
                if len(sigmemo) < 400000:
                    sigmemo[k] = sigs
            if sig in sigs:
                nxt = (nb, sigs[sig])
                break
        if nxt is None:
            end = (cur, None)
            break
        cur = nxt[0]
    for key in path:
        endmemo[key] = end
    return end[0]


def _worker(arg):
    si, w, n, rot = arg
    sp = _SPACES[si]
    signal.signal(signal.SIGALRM, _alarm)
    t0 = time.time()
    n_eval = n_nontriv = transitions = traces = 0
    tags = Counter()
    sigcount = Counter()
    obs = set()
    states = set()
    minimal = {}
    samples = []
    sigmemo, endmemo, budget = {}, {}, [0]
    for case in sp.shard(w, n, rot):
        out = safe_eval(sp, case)
        n_eval += 1
        if out.tags:
            n_nontriv += 1
            tags.update(out.tags)
        if out.obs is not None and len(obs) < 300000:
            obs.add(out.obs if isinstance(out.obs, (int, str)) else hash(out.obs))
        if out.states:
            states.update(out.states)
        transitions += out.transitions
        traces += out.traces
        if len(samples) < 3 and (n_eval + rot) % 97 == 1:
            samples.append(sp.describe(case))
        for sig, detail in out.viol:
            sigcount[sig] += 1
            end = _descend(sp, case, sig, sigmemo, endmemo, budget)
            key = (sig, core.canon(end))
            if key not in minimal:
                if core.canon(end) == core.canon(case):
                    d = detail
                else:
                    d = dict(safe_eval(sp, end).viol).get(sig, detail)
                minimal[key] = (end, d)
    if not samples and n_eval:
        for case in sp.shard(w, n, rot):
            samples.append(sp.describe(case))
            break
    return {
        "space": si, "n_eval": n_eval, "n_nontriv": n_nontriv, "tags": tags, "sigcount": sigcount,
        "obs": obs, "states": states, "transitions": transitions, "traces": traces,
        "minimal": minimal, "samples": samples, "descent_evals": budget[0], "wall": time.time() - t0,
    }


class Report:
    def __init__(self, sp):
        self.space = sp
        self.n_eval = 0
        self.n_nontriv = 0
        self.tags = Counter()
        self.sigcount = Counter()
        self.obs = set()
        self.states = set()
        self.transitions = 0
        self.traces = 0
        self.minimal = {}
        self.samples = []
        self.descent_evals = 0


def explore(spaces, nworkers=None):
    """Evaluate every case of every space; returns one Report per space."""
    global _SPACES
    nworkers = nworkers or NWORKERS
    _SPACES = list(spaces)
    rot = core.seed() % 9973
    reports = [Report(sp) for sp in _SPACES]
    jobs = [(si, w, nworkers, rot) for si in range(len(_SPACES)) for w in range(nworkers)]
    if nworkers == 1:
        results = map(_worker, jobs)
    else:
        ctx = mp.get_context("fork")
        pool = ctx.Pool(nworkers)
        results = pool.imap_unordered(_worker, jobs)
    for r in results:
        rep = reports[r["space"]]
        rep.n_eval += r["n_eval"]
        rep.n_nontriv += r["n_nontriv"]
        rep.tags.update(r["tags"])
        rep.sigcount.update(r["sigcount"])
        rep.obs |= r["obs"]
        rep.states |= r["states"]
        rep.transitions += r["transitions"]
        rep.traces += r["traces"]
        rep.descent_evals += r["descent_evals"]
        for k, v in r["minimal"].items():
            rep.minimal.setdefault(k, v)
        rep.samples.extend(r["samples"])
    if nworkers != 1:
        pool.close()
        pool.join()
    for rep in reports:
        rep.samples = sorted(rep.samples, key=core.canon)[:4]
    return reports


# ---------------------------------------------------------------------------------------------
KNOWN_FILE = os.path.join(core.VERIF_DIR, "KNOWN_FINDINGS.txt")


def load_known(prop):
    """Returns {(space, sig, case_json): description} for `finding:` lines of this property."""
    known = {}
    if not os.path.exists(KNOWN_FILE):
        return known
    for line in open(KNOWN_FILE, encoding="utf8"):
        line = line.rstrip("\n")
        if not line.startswith("finding: "):
            continue
        head, _, desc = line[len("finding: "):].partition(" :: ")
        try:
            p, rest = head.split(" ", 1)
            assert p.startswith("property=")
            if p[len("property="):] != prop:
                continue
            s, rest = rest.split(" ", 1)
            assert s.startswith("space=")
            g, rest = rest.split(" ", 1)
            assert g.startswith("sig=") and rest.startswith("case=")
            known[(s[6:], g[4:], rest[5:])] = desc
        except Exception:
            raise SystemExit(f"HARNESS ERROR: malformed line in KNOWN_FINDINGS.txt: {line[:120]}")
    return known


def finding_line(prop, space, sig, case, desc="TODO"):
    return f"finding: property={prop} space={space} sig={sig} case={core.canon(case)} :: {desc}"


def write_replay(prop, sp, sig, case, detail, tier="thorough"):
    d = os.path.join(core.VERIF_DIR, "replay", prop)
    os.makedirs(d, exist_ok=True)
    base = os.path.join(d, core.h([sp.name, sig, core.canon(case)]))
    with open(base + ".json", "w", encoding="utf8") as f:
        json.dump({"property": prop, "space": sp.name, "tier": tier, "sig": sig, "case": json.loads(core.canon(case)),
                   "describe": sp.describe(case), "detail": detail}, f, ensure_ascii=False, indent=1, default=str)
    with open(base + ".py", "w", encoding="utf8") as f:
        f.write(sp.replay_source(case, sig, detail, tier))
    return base + ".json"


def replay(prop, spaces, path, quiet=False):
    """Re-evaluate one replay artefact; exit code 1 iff the violation reproduces."""
    rec = json.load(open(path, encoding="utf8"))
    sp = [s for s in spaces if s.name == rec["space"]]
    if not sp:
        print(f"HARNESS ERROR: unknown space {rec['space']}")
        return 2
    sp = sp[0]
    signal.signal(signal.SIGALRM, _alarm)
    case = sp.decode(core.canon(rec["case"]))
    out = safe_eval(sp, case)
    sigs = [s for s, _ in out.viol]
    if not quiet:
        print(json.dumps({"case": sp.describe(case), "violations": out.viol}, ensure_ascii=False, indent=1, default=str))
    if rec["sig"] in sigs:
        print(f"VIOLATION property={prop} replay={path}")
        return 1
    print(f"replay: signature {rec['sig']} not reproduced (now: {sigs})")
    return 0


def _confirm_fresh(prop, path):
    """Re-evaluate in a fresh interpreter; True iff it reproduces there too."""
    r = subprocess.run([sys.executable, os.path.join(core.VERIF_DIR, "check.py"), prop, "--replay", path, "--quiet"],
                       capture_output=True, text=True, env=dict(os.environ), timeout=600)
    return r.returncode == 1, r.stdout[-400:] + r.stderr[-400:]


def finish(prop, level, reports, tier, t0, rule, assumptions=(), extra=None, exhaustive=True):
    known = load_known(prop)
    reproduced, unknown = [], []
    for rep in reports:
        for (sig, cj), (case, detail) in sorted(rep.minimal.items()):
            key = (rep.space.name, sig, cj)
            if key in known:
                reproduced.append((key, known[key]))
            else:
                unknown.append((rep.space, sig, case, detail))
    rc = 0
    dump = os.environ.get("VERIF_DUMP")
    if dump:
        with open(dump, "w", encoding="utf8") as f:
            for sp, sig, case, detail in unknown:
                f.write(json.dumps({"space": sp.name, "sig": sig, "case": json.loads(core.canon(case)), "describe": sp.describe(case),
                                    "detail": detail}, ensure_ascii=False, default=str) + "\n")
        unknown_all, unknown = unknown, unknown[:0]
        print(f"VERIF_DUMP: wrote {len(unknown_all)} unlisted minimal violators to {dump} (not confirmed, not reported)")
    for key, desc in reproduced:
        print(f"KNOWN-FINDING: property={prop} space={key[0]} sig={key[1]} case={key[2]} :: {desc}")
    gone = [k for k in known if k not in {r[0] for r in reproduced}]
    for k in gone:
        in_tier = any(rep.space.name == k[0] for rep in reports)
        if in_tier:
            print(f"KNOWN-FINDING-GONE (informational, may lie outside this tier's bound): space={k[0]} sig={k[1]} case={k[2]}")
    harness_errors = []
    confirmed_per_sig = Counter()
    skipped_per_sig = Counter()
    for i, (sp, sig, case, detail) in enumerate(unknown):
        if i >= MAX_REPORTED:
            print(f"... {len(unknown) - MAX_REPORTED} further minimal violators not written out")
            break
        if confirmed_per_sig[(sp.name, sig)] >= MAX_CONFIRM_PER_SIG:
            # the signature is established; re-running every further case in a fresh process (30 s each for a hang) adds nothing
            skipped_per_sig[(sp.name, sig)] += 1
            continue
        path = write_replay(prop, sp, sig, case, detail, tier)
        ok, msg = _confirm_fresh(prop, path)
        if not ok:
            harness_errors.append(f"violation {sig} on {core.canon(case)[:200]} did not reproduce in a fresh process: {msg}")
            continue
        confirmed_per_sig[(sp.name, sig)] += 1
        print(f"VIOLATION property={prop} replay={path}")
        print(f"  space={sp.name} sig={sig} case={core.canon(case)[:300]}")
        print("  " + finding_line(prop, sp.name, sig, case)[:600])
        rc = 1
    for (spn, sig), n in sorted(skipped_per_sig.items()):
        print(f"... {n} further minimal violators of space={spn} sig={sig} not re-confirmed one by one")
    # vacuity floors
    for rep in reports:
        for tag, floor in (rep.space.floors or {}).items():
            if rep.tags.get(tag, 0) < floor:
                harness_errors.append(f"vacuous: space {rep.space.name} clause '{tag}' fired on {rep.tags.get(tag, 0)} cases (< {floor})")
    n_eval = sum(r.n_eval for r in reports)
    n_nontriv = sum(r.n_nontriv for r in reports)
    cov = {
        "evaluations": n_eval,
        "distinct_nontrivial": n_nontriv,
        "rule": rule,
        "exhaustive": bool(exhaustive),
        "samples": [{"space": r.space.name, "case": s} for r in reports for s in r.samples][:12],
        "spaces": {r.space.name: {"cases": r.n_eval, "nontrivial": r.n_nontriv, "clauses": dict(sorted(r.tags.items())),
                                   "distinct_outcomes": len(r.obs), "violating_cases_by_signature": dict(sorted(r.sigcount.items())),
                                   "minimal_violators": len(r.minimal), "descent_evaluations": r.descent_evals}
                   for r in reports},
        "known_findings_reproduced": [f"{k[0]} {k[1]} {k[2]}" for k, _ in reproduced],
        "unlisted_minimal_violators": len(unknown),
    }
    if level == "model_checking":
        cov["states"] = sum(len(r.states) for r in reports)
        cov["transitions"] = sum(r.transitions for r in reports)
        cov["traces_validated_against_impl"] = sum(r.traces for r in reports)
    if extra:
        extra = dict(extra)
        harness_errors.extend(extra.pop("harness_errors", []))
        cov.update(extra)
    ev = {
        "property_id": prop, "tier": tier, "seed": core.seed(), "level": level, "coverage": cov,
        "assumptions": list(assumptions), "wall_s": round(time.time() - t0, 2),
        "violations": len(unknown),
    }
    # evidence/ is only written for runs against /repo itself; runs against a scratch copy (VERIF_REPO) go elsewhere
    evdir = os.path.join(core.VERIF_DIR, "evidence" if core.REPO == "/repo" else "evidence-scratch")
    os.makedirs(evdir, exist_ok=True)
    with open(os.path.join(evdir, prop + ".json"), "w", encoding="utf8") as f:
        json.dump(ev, f, ensure_ascii=False, indent=1, default=str)
    for r in reports:
        print(f"[{prop}] space {r.space.name}: cases={r.n_eval} nontrivial={r.n_nontriv} outcomes={len(r.obs)} "
              f"violating={sum(r.sigcount.values())} minimal={len(r.minimal)} clauses={dict(sorted(r.tags.items()))}")
    print(f"[{prop}] tier={tier} seed={core.seed()} evaluations={n_eval} known={len(reproduced)} unlisted={len(unknown)} wall={ev['wall_s']}s")
    if harness_errors:
        for e in harness_errors:
            print("HARNESS ERROR:", e)
        return 2 if rc == 0 else rc
    return rc

"""Cooperative thread scheduler for schedule exploration.

Every thread runs under a per-thread semaphore baton; scheduling points are the Python-level *call*
events (sys.setprofile) of functions whose source file passes `point_filter`.  A schedule is a list of
(point index, thread to switch to): at the given global point index the running thread hands the baton
to the named thread (a preemption, since the running thread could have continued).  When a thread
finishes, the baton goes to the lowest unfinished thread.  With real OS threads but only one runnable
at a time the execution is deterministic for a given schedule.
"""
from __future__ import annotations

import sys
import threading


class Run:
    def __init__(self, bodies, switches, point_filter):
        self.bodies = bodies
        self.n = len(bodies)
        self.sems = [threading.Semaphore(0) for _ in bodies]
        self.main = threading.Semaphore(0)
        self.done = [False] * self.n
        self.results = [None] * self.n
        self.switches = list(switches)      # [(global point index, thread id)]
        self.points = 0
        self.owner = []                     # thread id that executed each point
        self.filter = point_filter
        self.preemptions = 0

    def _prof(self, tid):
        flt = self.filter

        def prof(frame, event, arg):
            if event == "call" and flt(frame.f_code.co_filename):
                self.point(tid)
        return prof

    def point(self, tid):
        idx = self.points
        self.points += 1
        self.owner.append(tid)
        if self.switches and self.switches[0][0] == idx:
            _, to = self.switches.pop(0)
            if to != tid and not self.done[to]:
                self.preemptions += 1
                self.sems[to].release()
                self.sems[tid].acquire()

    def _thread(self, tid):
        self.sems[tid].acquire()
        sys.setprofile(self._prof(tid))
        try:
            self.results[tid] = ("ok", self.bodies[tid]())
        except BaseException as e:  # noqa: BLE001
            self.results[tid] = ("exc", type(e).__name__ + ": " + str(e)[:200])
        finally:
            sys.setprofile(None)
            self.done[tid] = True
            nxt = [i for i in range(self.n) if not self.done[i]]
            if nxt:
                self.sems[nxt[0]].release()
            else:
                self.main.release()

    def go(self, first=0):
        ths = [threading.Thread(target=self._thread, args=(i,), daemon=True) for i in range(self.n)]
        for t in ths:
            t.start()
        self.sems[first].release()
        self.main.acquire()
        for t in ths:
            t.join()
        return self.results

"""Generic space of one-paragraph documents: token sequences x separators x container contexts x
widths x line-break mode, with fine-grained (room-preserving) shrinking moves.

case = (ctx_index, token_ids, seps, width, sem)

The oracle is a function (space, case, text, width, sem) -> Outcome supplied by the check.
"""
from __future__ import annotations

import itertools

from . import docspace
from .explorer import Space


class ParaSpace(Space):
    def __init__(self, prop, name, alphabet, maxn, oracle, ctxs, sepnames=("sp", "nl"), widths=None, modes=(False, True),
                 full_upto=2, reps=None, lead="", floors=None, extra_widths=(0, 1, 88), valid=None, max_special_seps=None, trail=""):
        """alphabet: list of tokens, simplest first (index 0 must be a plain short word).
        maxn: maximal number of tokens.  Up to `full_upto` tokens the full alphabet is used, above it
        only the class representatives `reps` (indices).  widths=None -> critical widths of the case.
        lead: text put in front of the paragraph (e.g. 'zz ' so that the first token is not at the
        paragraph start).  valid(tokens, seps) -> bool filters cases (and shrink targets)."""
        self.prop, self.name = prop, name
        self.alphabet, self.maxn, self.oracle = alphabet, maxn, oracle
        self.ctxs = ctxs
        self.sepnames, self.fixed_widths, self.modes = sepnames, widths, modes
        self.full_upto, self.reps = full_upto, (reps if reps is not None else list(range(len(alphabet))))
        self.lead = lead
        self.trail = trail  # text after the last token (e.g. " |\n|---|" to close a one-cell table)
        self.floors = floors or {}
        self.extra_widths = extra_widths
        self.valid = valid or (lambda toks, seps: True)
        self.max_special_seps = max_special_seps

    # -- construction -----------------------------------------------------------------------
    def tokens(self, ks):
        return [self.alphabet[k] for k in ks]

    def para(self, ks, seps):
        return self.lead + docspace.join_tokens(self.tokens(ks), seps) + self.trail

    def text(self, case):
        ci, ks, seps, width, sem = case
        layers, b, a = self.ctxs[ci]
        return docspace.in_context(self.para(ks, seps).split("\n"), layers, b, a)

    def widths_for(self, ci, ks):
        if self.fixed_widths is not None:
            return list(self.fixed_widths)
        layers = self.ctxs[ci][0]
        first, cont = docspace.indent_of(layers)
        toks = (self.lead.split() if self.lead else []) + self.tokens(ks)
        toks = [w for t in toks for w in (t.split() or [t])]
        ws = set(self.extra_widths)
        for i in range(len(toks)):
            for j in range(i + 1, len(toks) + 1):
                n = len(" ".join(toks[i:j]))
                for ind in {len(first), len(cont)}:
                    ws.add(ind + n)
                    ws.add(ind + n - 1)
        return sorted(w for w in ws if w >= 0)

    def cases(self):
        for ci in range(len(self.ctxs)):
            for n in range(1, self.maxn + 1):
                idx = range(len(self.alphabet)) if n <= self.full_upto else self.reps
                for ks in itertools.product(idx, repeat=n):
                    for seps in itertools.product(self.sepnames, repeat=n - 1):
                        if self.max_special_seps is not None and sum(1 for s in seps if s != "sp") > self.max_special_seps:
                            continue
                        if not self.valid(self.tokens(ks), seps):
                            continue
                        for width in self.widths_for(ci, ks):
                            for sem in self.modes:
                                yield (ci, ks, seps, width, sem)

    def describe(self, case):
        return {"text": self.text(case), "width": case[3], "semantic": case[4]}

    def evaluate(self, case):
        return self.oracle(self, case, self.text(case), case[3], case[4])

    # -- shrinking --------------------------------------------------------------------------
    def smaller(self, case):
        for c in self._smaller(case):
            if c[3] >= 0 and self.valid(self.tokens(c[1]), c[2]):
                yield c

    def _smaller(self, case):
        ci, ks, seps, width, sem = case
        layers, b, a = self.ctxs[ci]
        A = self.alphabet
        none = ((), None, None)
        if self.ctxs[ci] != none and none in self.ctxs:
            yield (self.ctxs.index(none), ks, seps, width, sem)
            for ind in docspace.indent_of(layers):
                if len(ind) and width - len(ind) >= 1:
                    yield (self.ctxs.index(none), ks, seps, width - len(ind), sem)
        for cj, (l2, b2, a2) in enumerate(self.ctxs):
            if cj == ci:
                continue
            if (len(l2) == len(layers) - 1 and (l2 == layers[1:] or l2 == layers[:-1]) and (b2, a2) == (b, a)) or \
               (l2 == layers and (b2, a2) in ((None, None), (b, None), (None, a)) and (b2, a2) != (b, a)):
                yield (cj, ks, seps, width, sem)
        for i in range(len(ks)):
            if len(ks) > 1:
                s2 = seps[:i] + seps[i + 1:] if i < len(seps) else seps[:-1]
                yield (ci, ks[:i] + ks[i + 1:], s2, width, sem)
                room = len(A[ks[i]]) + 1
                if width - room >= 1:
                    yield (ci, ks[:i] + ks[i + 1:], s2, width - room, sem)
        for i in range(len(ks)):
            reps = [0]
            if getattr(self, "hazard_rep", None) is not None:
                reps.append(self.hazard_rep)
            cr = getattr(self, "class_rep", {}).get(ks[i])
            if cr is not None:
                reps.append(cr)
            for rep in reps:
                if ks[i] != rep and (rep == 0 or ks[i] > rep):
                    yield (ci, ks[:i] + (rep,) + ks[i + 1:], seps, width, sem)
                    room = len(A[ks[i]]) - len(A[rep])
                    if room > 0 and width - room >= 1:
                        yield (ci, ks[:i] + (rep,) + ks[i + 1:], seps, width - room, sem)
        for i in range(len(seps)):
            if seps[i] != "sp":
                yield (ci, ks, seps[:i] + ("sp",) + seps[i + 1:], width, sem)
        if sem and False in self.modes:
            yield (ci, ks, seps, width, False)
        if width > 1:
            yield (ci, ks, seps, width - 1, sem)

"""Reference readers: normalise Markdown text to a plain comparable tree.

Reader A = flowmark's own reader (flowmark_markdown().parse), the reading the property statements
refer to.  Reader B = markdown-it-py (independent CommonMark/GFM implementation), used only on
inputs where it agrees with Reader A.

Node = (label, attrs, children) with attrs a tuple of (name, value) pairs and children a tuple of
nodes.  Normalisations (all licensed by property C01): soft break == space, whitespace runs
collapsed, adjacent text merged, backslash-escaped character == the character, Setext == ATX,
indented == fenced code, marker characters and fence style ignored, Pangu space between CJK and
Latin applied, inline/reference link syntax == (dest, title).
"""
from __future__ import annotations

import functools
import html
import re

from . import core

core.bind()
from marko import block, inline  # noqa: E402
from marko.ext import footnote as _footnote  # noqa: E402
from marko.ext.gfm import elements as _gfm_elements  # noqa: E402
from marko.ext.pangu import PANGU_RE  # noqa: E402

from flowmark.formats.flowmark_markdown import flowmark_markdown  # noqa: E402

_WS = re.compile(r"\s+")



def _code_content(raw, fenced):
    """Content of a code block as its lines joined by LF.  A fenced block keeps every line between the fences, blank
    ones at the end included (every line carries its terminator, so "no line" and "one empty line" differ); an indented block never
    ends in blank lines."""
    if not fenced:
        r = raw.rstrip("\n")
        return r + "\n" if r else ""
    return raw if (raw.endswith("\n") or not raw) else raw + "\n"


def T(s):
    return ("T", (("s", s),), ())


def _merge(nodes):
    merged = []
    for n in nodes:
        if n[0] == "T" and merged and merged[-1][0] == "T":
            merged[-1] = T(merged[-1][1][0][1] + n[1][0][1])
        else:
            merged.append(n)
    res = []
    for n in merged:
        if n[0] == "T":
            s = re.sub(PANGU_RE, " ", n[1][0][1])
            s = _WS.sub(" ", s)
            res.append(T(s))
        else:
            res.append(n)
    for i, n in enumerate(res):  # whitespace next to a hard break is not significant
        if n[0] == "BR":
            if i > 0 and res[i - 1][0] == "T":
                res[i - 1] = T(res[i - 1][1][0][1].rstrip())
            if i + 1 < len(res) and res[i + 1][0] == "T":
                res[i + 1] = T(res[i + 1][1][0][1].lstrip())
    if res and res[0][0] == "T":
        res[0] = T(res[0][1][0][1].lstrip())
    if res and res[-1][0] == "T":
        res[-1] = T(res[-1][1][0][1].rstrip())
    return tuple(n for n in res if not (n[0] == "T" and n[1][0][1] == ""))


# ----------------------------------------------------------------------------- Reader A
def _a_inl(el, out):
    t = type(el).__name__
    if isinstance(el, (inline.RawText, inline.Literal)):
        out.append(T(el.children))
    elif isinstance(el, inline.LineBreak):
        out.append(T(" ") if el.soft else ("BR", (), ()))
    elif isinstance(el, inline.CodeSpan):
        out.append(("CODESPAN", (("s", _WS.sub(" ", el.children).strip()),), ()))   # (edge spaces: CommonMark strips one of each)
    elif isinstance(el, inline.InlineHTML):
        out.append(("HTML", (("s", _WS.sub(" ", el.children)),), ()))
    elif isinstance(el, (inline.AutoLink, _gfm_elements.Url)):
        out.append(("AUTOLINK", (("dest", el.dest),), _a_kids(el)))
    elif isinstance(el, inline.Image):
        out.append(("IMG", (("dest", el.dest), ("title", el.title or None)), _a_kids(el)))
    elif isinstance(el, inline.Link):
        out.append(("LINK", (("dest", el.dest), ("title", el.title or None)), _a_kids(el)))
    elif isinstance(el, inline.StrongEmphasis):
        out.append(("STRONG", (), _a_kids(el)))
    elif isinstance(el, inline.Emphasis):
        out.append(("EM", (), _a_kids(el)))
    elif isinstance(el, _gfm_elements.Strikethrough):
        out.append(("DEL", (), _a_kids(el)))
    elif isinstance(el, _footnote.FootnoteRef):
        out.append(("FNREF", (("label", el.label),), ()))
    else:
        ch = getattr(el, "children", None)
        if isinstance(ch, str):
            out.append((t.upper(), (("s", ch),), ()))
        elif isinstance(ch, list):
            out.append((t.upper(), (), _a_kids(el)))
        else:
            out.append((t.upper(), (), ()))


def _a_kids(el):
    out = []
    ch = el.children
    if isinstance(ch, str):
        out.append(T(ch))
    else:
        for c in ch:
            _a_inl(c, out)
    return _merge(out)


def _align(d):
    return ("c" if d.startswith(":") and d.endswith(":") else "l" if d.startswith(":") else "r" if d.endswith(":") else "-")


def _strip_title_quotes(t):
    return t


def _a_blk(el):
    t = type(el).__name__
    if isinstance(el, block.BlankLine):
        return None
    if isinstance(el, block.Paragraph):
        return ("P", (("checked", getattr(el, "checked", None)),), _a_kids(el))
    if isinstance(el, (block.Heading, block.SetextHeading)):
        return ("H", (("level", el.level),), _a_kids(el))
    if isinstance(el, (block.FencedCode, block.CodeBlock)):
        lang = getattr(el, "lang", "") or ""
        extra = getattr(el, "extra", "") or ""
        return ("CODE", (("lang", lang), ("extra", extra), ("content", _code_content(el.children[0].children, fenced=isinstance(el, block.FencedCode)))), ())
    if isinstance(el, block.ThematicBreak):
        return ("HR", (), ())
    if isinstance(el, block.LinkRefDef):
        return ("DEF", (("label", el.label), ("dest", el.dest), ("title", el.title or None)), ())
    if t == "Alert" or hasattr(el, "alert_type"):
        return ("ALERT", (("type", el.alert_type),), _a_blocks(el))
    if isinstance(el, block.Quote):
        return ("QUOTE", (), _a_blocks(el))
    if isinstance(el, block.List):
        return ("LIST", (("ordered", bool(el.ordered)), ("start", el.start if el.ordered else None), ("tight", bool(el.tight))),
                tuple(("ITEM", (), _a_blocks(i)) for i in el.children))
    if isinstance(el, block.ListItem):
        return ("ITEM", (), _a_blocks(el))
    if isinstance(el, _footnote.FootnoteDef):   # (by class, not by name: the repository may register a subclass)
        return ("FNDEF", (("label", el.label),), _a_blocks(el))
    if isinstance(el, _gfm_elements.Table):
        return ("TABLE", (("align", tuple(_align(d) for d in el.delimiters)),),
                tuple(("ROW", (), tuple(("CELL", (), _a_kids(c)) for c in row.children)) for row in el.children))
    if isinstance(el, block.HTMLBlock):
        return ("HTMLBLOCK", (("s", el.body),), ())
    # an unknown block type must not become an opaque leaf (its content would silently drop out of every comparison)
    raise RuntimeError(f"HARNESS: Reader A does not know block type {t}")


def _a_blocks(el):
    return tuple(b for b in (_a_blk(c) for c in el.children) if b is not None)


def parse_a(text):
    return flowmark_markdown().parse(text)


@functools.lru_cache(maxsize=2048)
def norm_a(text):
    """Reader A on text (a final newline is supplied, as the formatter does)."""
    if not text.endswith("\n"):
        text += "\n"
    return ("DOC", (), _a_blocks(parse_a(text)))


# ----------------------------------------------------------------------------- Reader B
_mdit = None


def _get_mdit():
    global _mdit
    if _mdit is None:
        from markdown_it import MarkdownIt

        _mdit = MarkdownIt("commonmark").enable("table").enable("strikethrough")
    return _mdit


def _b_inline(tok):
    out = []
    stack = [out]
    for c in tok.children or []:
        t = c.type
        if t == "text":
            stack[-1].append(T(c.content))
        elif t == "softbreak":
            stack[-1].append(T(" "))
        elif t == "hardbreak":
            stack[-1].append(("BR", (), ()))
        elif t == "code_inline":
            stack[-1].append(("CODESPAN", (("s", _WS.sub(" ", c.content).strip()),), ()))
        elif t == "html_inline":
            stack[-1].append(("HTML", (("s", _WS.sub(" ", c.content)),), ()))
        elif t in ("em_open", "strong_open", "s_open", "link_open"):
            new = [c]
            stack.append(new)
        elif t in ("em_close", "strong_close", "s_close", "link_close"):
            lst = stack.pop()
            o = lst[0]
            kids = _merge(lst[1:])
            if t == "em_close":
                stack[-1].append(("EM", (), kids))
            elif t == "strong_close":
                stack[-1].append(("STRONG", (), kids))
            elif t == "s_close":
                stack[-1].append(("DEL", (), kids))
            elif o.markup == "autolink":
                stack[-1].append(("AUTOLINK", (("dest", o.attrGet("href")),), kids))
            else:
                stack[-1].append(("LINK", (("dest", o.attrGet("href")), ("title", o.attrGet("title") or None)), kids))
        elif t == "image":
            stack[-1].append(("IMG", (("dest", c.attrGet("src")), ("title", c.attrGet("title") or None)), _b_inline(c)))
        else:
            stack[-1].append((t.upper(), (("s", c.content),), ()))
    return _merge(out)


@functools.lru_cache(maxsize=2048)
def norm_b(text):
    if not text.endswith("\n"):
        text += "\n"
    toks = _get_mdit().parse(text)
    pos = 0

    def seq(end_type):
        nonlocal pos
        out = []
        while pos < len(toks):
            if toks[pos].type == end_type:
                pos += 1
                return tuple(out)
            out.append(one())
        return tuple(out)

    def one():
        nonlocal pos
        t = toks[pos]
        pos += 1
        ty = t.type
        if ty == "paragraph_open":
            inl = toks[pos]
            pos += 2
            return ("P", (("checked", None),), _b_inline(inl))
        if ty == "heading_open":
            inl = toks[pos]
            pos += 2
            return ("H", (("level", int(t.tag[1])),), _b_inline(inl))
        if ty in ("fence", "code_block"):
            info = t.info.strip() if ty == "fence" else ""
            m = re.match(r"(\S*)\s*(.*)", info, re.S)
            return ("CODE", (("lang", m.group(1)), ("extra", m.group(2).strip()), ("content", _code_content(t.content, fenced=(ty == "fence")))), ())
        if ty == "hr":
            return ("HR", (), ())
        if ty == "blockquote_open":
            return ("QUOTE", (), seq("blockquote_close"))
        if ty in ("bullet_list_open", "ordered_list_open"):
            ordered = ty == "ordered_list_open"
            start = int(t.attrGet("start") or 1) if ordered else None
            items = []
            tight = True
            close = ty.replace("open", "close")
            while toks[pos].type != close:
                assert toks[pos].type == "list_item_open"
                lvl = toks[pos].level
                pos += 1
                j = pos
                while not (toks[j].type == "list_item_close" and toks[j].level == lvl):
                    if toks[j].type == "paragraph_open" and toks[j].level == lvl + 1 and not toks[j].hidden:
                        tight = False
                    j += 1
                kids = seq("list_item_close")
                items.append(("ITEM", (), kids))
            pos += 1
            return ("LIST", (("ordered", ordered), ("start", start), ("tight", tight)), tuple(items))
        if ty == "html_block":
            return ("HTMLBLOCK", (("s", t.content),), ())
        if ty == "table_open":
            rows = []
            aligns = None
            while toks[pos].type != "table_close":
                tt = toks[pos]
                if tt.type == "tr_open":
                    pos += 1
                    cells = []
                    al = []
                    while toks[pos].type != "tr_close":
                        o = toks[pos]
                        inl = toks[pos + 1]
                        pos += 3
                        st = o.attrGet("style") or ""
                        al.append("c" if "center" in st else "l" if "left" in st else "r" if "right" in st else "-")
                        cells.append(("CELL", (), _b_inline(inl)))
                    pos += 1
                    rows.append(("ROW", (), tuple(cells)))
                    if aligns is None:
                        aligns = tuple(al)
                else:
                    pos += 1
            pos += 1
            return ("TABLE", (("align", aligns),), tuple(rows))
        return (ty.upper(), (), ())

    return ("DOC", (), seq("__eof__"))


# ----------------------------------------------------------------------------- cross-reader comparison
def _soften(tree):
    """Normalisation applied to BOTH readers' trees before testing whether they agree on an input:
    entities decoded in text, percent-encoding of destinations removed, link definitions dropped
    (markdown-it consumes them), task-list state dropped."""
    from urllib.parse import unquote

    label, attrs, kids = tree
    if label == "DEF":
        return None
    a2 = []
    for k, v in attrs:
        if k == "s" and label == "T":
            v = _WS.sub(" ", html.unescape(v))
        elif k in ("dest",) and isinstance(v, str):
            v = unquote(html.unescape(v))
        elif k == "title" and isinstance(v, str):
            v = html.unescape(v)
        elif k == "checked":
            v = None
        a2.append((k, v))
    k2 = tuple(x for x in (_soften(c) for c in kids) if x is not None)
    if label in ("P", "H", "CELL", "EM", "STRONG", "DEL", "LINK", "IMG", "AUTOLINK"):
        k2 = _merge(list(k2))
    return (label, tuple(a2), k2)


@functools.lru_cache(maxsize=2048)
def readers_agree(text):
    try:
        return _soften(norm_a(text)) == _soften(norm_b(text))
    except Exception:
        return False


# ----------------------------------------------------------------------------- diff / signatures
def first_diff(a, b):
    """Leaf-level signature of the first difference between two trees, or None if equal."""
    if a == b:
        return None
    la, aa, ka = a
    lb, ab, kb = b
    if la != lb:
        return f"{la}→{lb}"
    for (n1, v1), (n2, v2) in zip(aa, ab):
        if v1 != v2:
            return f"{la}.{n1}"
    for x, y in zip(ka, kb):
        d = first_diff(x, y)
        if d:
            return d
    if len(ka) > len(kb):
        return f"{ka[len(kb)][0]}→∅"
    if len(kb) > len(ka):
        return f"∅→{kb[len(ka)][0]}"
    return f"{la}.?"


def drop_attr(tree, name):
    label, attrs, kids = tree
    return (label, tuple((k, v) for k, v in attrs if k != name), tuple(drop_attr(c, name) for c in kids))


def labels(tree, acc=None):
    """Multiset of node labels (used for non-vacuity tags)."""
    if acc is None:
        acc = set()
    acc.add(tree[0])
    for c in tree[2]:
        labels(c, acc)
    return acc


def show(tree, depth=0):
    label, attrs, kids = tree
    s = "  " * depth + label + (" " + " ".join(f"{k}={v!r}" for k, v in attrs) if attrs else "")
    return "\n".join([s] + [show(c, depth + 1) for c in kids])

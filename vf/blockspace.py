"""Space of small multi-block documents: sequences of blocks from a block alphabet, joined with or
without a blank line, inside container contexts, x widths x modes.

case = (ctx_index, block_ids, joins, width, sem)      joins[i] in ("b", "n") = blank line / directly adjacent
"""
from __future__ import annotations

import itertools

from . import docspace
from .explorer import Space

# name -> lines.  Ordered simplest-first; index 0 must be the plain paragraph.
BLOCKS = [
    ("p", ["aa"]),
    ("p2", ["aa bb", "cc"]),
    ("h1", ["# H"]),
    ("h2close", ["## H ##"]),
    ("setext1", ["H", "==="]),
    ("setext2", ["H", "---"]),
    ("ul", ["- a", "- b"]),
    ("ul-loose", ["- a", "", "- b"]),
    ("ul*", ["* a"]),
    ("ul+", ["+ a"]),
    ("ol", ["1. a", "2. b"]),
    ("ol2", ["2. a", "3. b"]),
    ("ol0", ["0. a"]),
    ("ol10", ["10. a"]),
    ("ol)", ["1) a"]),
    ("task", ["- [ ] a", "- [x] b"]),
    ("ul-empty", ["- a", "-", "- c"]),
    ("ul-nested", ["- a", "  - b"]),
    ("ul-2p", ["- a", "", "  b"]),
    ("ul-code", ["- a", "", "  ```", "  x", "  ```"]),
    ("ul-quote", ["- a", "", "  > q"]),
    ("ol-nested", ["1. a", "   - b"]),
    ("ul-nested-loose", ["- a", "", "  - b", "", "  - c"]),
    ("bq", ["> a"]),
    ("bq2", ["> a", "> b"]),
    ("bq-2p", ["> a", ">", "> b"]),
    ("bq-lazy", ["> a", "b"]),
    ("bq-nested", ["> > a"]),
    ("bq-list", ["> - a", "> - b"]),
    ("alert", ["> [!NOTE]", "> a"]),
    ("alert-lower", ["> [!tip]", "> a"]),
    ("alert-bad", ["> [!FOO]", "> a"]),
    ("code", ["```", "x", "```"]),
    ("code-py", ["```py", "x", "```"]),
    ("code-tilde", ["~~~", "x", "~~~"]),
    ("code-4", ["````", "```", "````"]),
    ("code-info2", ["```py x=1", "x", "```"]),
    ("code-blank", ["```", "", "x", "", "y", "```"]),
    ("code-indented", ["    x"]),
    ("code-unterminated", ["```", "x"]),
    ("code-tilde-bt", ["~~~", "```", "~~~"]),
    ("code-md", ["```", "- x", "> y", "# z", "```"]),
    ("table", ["| a | b |", "|---|:-:|", "| c | d |"]),
    ("table-bare", ["a | b", "-|-", "c | d"]),
    ("table-esc", ["| a\\|b |", "|--:|", "| `c\\|d` |"]),
    ("hr*", ["***"]),
    ("hr-", ["---"]),
    ("hr_", ["___"]),
    ("hr-spaced", ["* * *"]),
    ("def", ["[x]: u"]),
    ("def-title", ['[x]: u "t"']),
    ("def-title1", ["[x]: u 't'"]),
    ("def-titlep", ["[x]: u (t)"]),
    ("def-angle", ["[x]: <u v>"]),
    ("def-use", ["[x]: u", "", "[x] [y][x]"]),
    ("fn", ["[^1]: a"]),
    ("fn-cont", ["[^1]: a", "    b"]),
    ("fn-2p", ["[^1]: a", "", "    b"]),
    ("fn-use", ["a[^1]", "", "[^1]: b"]),
    ("tag", ["{% t %}"]),
    ("comment", ["<!-- c -->"]),
    ("html", ["<div>"]),
    ("hardbreak", ["aa\\", "bb"]),
    ("hardbreak-sp", ["aa  ", "bb"]),
    # paragraphs that begin with an escaped block marker (the renderer decides per paragraph whether the escape stays)
    ("p-esc-num", ["1\\. aa"]),
    ("p-esc-dash", ["\\- aa"]),
    ("p-esc-hash", ["\\# aa"]),
    # ordered lists whose marker width changes inside the list, with a multi-block item after the change
    ("ol-cross", ["9. a", "", "10. b", "", "    c"]),
    ("ol-cross-nested", ["9. a", "10. b", "    - c"]),
    ("ol-cross99", ["99. a", "100. b", "", "     c"]),
    ("ul-item-code-indented", ["- a", "", "      x"]),
    ("p-long", ["aa bb cc dd ee ff gg hh ii jj kk ll mm nn oo pp qq rr ss tt uu vv ww xx yy zz aa bb cc dd ee ff gg"]),
    ("h1-long", ["# H aa bb cc dd ee ff gg hh ii jj kk ll mm nn oo pp qq rr ss tt uu vv ww xx yy zz aa bb cc dd ee ff gg"]),
    # appended later: legal but unusual fences, and tag-delimited blocks written without blank lines
    ("code-long-close", ["```py", "x", "````"]),
    ("code-tilde-long-close", ["~~~", "x", "~~~~~"]),
    ("code-fence-indented", [" ```", "x", " ```"]),
    ("tag-list", ["{% t %}", "- a", "- b", "{% /t %}"]),
    ("tag-table", ["<!-- t -->", "| a |", "|---|", "| b |", "<!-- /t -->"]),
    ("code-close-trailing-space", ["```", "x", "```   "]),
]
NAMES = [n for n, _ in BLOCKS]


def _class_rep(name):
    """Simplest block of the same family (used by the shrinking relation)."""
    for prefix, rep in (("ul", "ul"), ("ol", "ol"), ("task", "ul"), ("bq", "bq"), ("alert", "alert"), ("code", "code"),
                        ("table", "table"), ("hr", "hr-"), ("def", "def"), ("fn", "fn"), ("setext", "setext1"), ("h", "h1"),
                        ("hardbreak", "hardbreak"), ("p-esc", "p-esc-num")):
        if name.startswith(prefix):
            return NAMES.index(rep)
    return 0


class BlockSpace(Space):
    def __init__(self, prop, name, oracle, ctxs, maxn, widths, modes=(False, True), full_upto=2, reps=None, floors=None,
                 blocks=None):
        self.prop, self.name, self.oracle = prop, name, oracle
        self.blocks = blocks or BLOCKS
        self.ctxs, self.maxn, self.widths, self.modes = ctxs, maxn, list(widths), modes
        self.full_upto = full_upto
        self.reps = reps if reps is not None else list(range(len(self.blocks)))
        self.floors = floors or {}

    def text(self, case):
        ci, bs, joins, width, sem = case
        lines = []
        for i, b in enumerate(bs):
            if i and joins[i - 1] == "b":
                lines.append("")
            lines.extend(self.blocks[b][1])
        layers, before, after = self.ctxs[ci]
        return docspace.in_context(lines, layers, before, after)

    def cases(self):
        for ci in range(len(self.ctxs)):
            for n in range(1, self.maxn + 1):
                idx = range(len(self.blocks)) if n <= self.full_upto else self.reps
                for bs in itertools.product(idx, repeat=n):
                    for joins in itertools.product(("b", "n"), repeat=n - 1):
                        for width in self.widths:
                            for sem in self.modes:
                                yield (ci, bs, joins, width, sem)

    def describe(self, case):
        return {"text": self.text(case), "width": case[3], "semantic": case[4], "blocks": [self.blocks[b][0] for b in case[1]]}

    def evaluate(self, case):
        return self.oracle(self, case, self.text(case), case[3], case[4])

    def smaller(self, case):
        ci, bs, joins, width, sem = case
        layers, b, a = self.ctxs[ci]
        none = ((), None, None)
        if self.ctxs[ci] != none and none in self.ctxs:
            yield (self.ctxs.index(none), bs, joins, width, sem)
        for cj, (l2, b2, a2) in enumerate(self.ctxs):
            if cj != ci and ((len(l2) == len(layers) - 1 and (l2 == layers[1:] or l2 == layers[:-1]) and (b2, a2) == (b, a)) or
                             (l2 == layers and (b2, a2) in ((None, None), (b, None), (None, a)) and (b2, a2) != (b, a))):
                yield (cj, bs, joins, width, sem)
        for i in range(len(bs)):
            if len(bs) > 1:
                j2 = joins[:i] + joins[i + 1:] if i < len(joins) else joins[:-1]
                yield (ci, bs[:i] + bs[i + 1:], j2, width, sem)
        for i in range(len(bs)):
            rep = _class_rep(self.blocks[bs[i]][0]) if self.blocks is BLOCKS else 0
            for r in (rep, 0):
                if bs[i] != r and r < bs[i]:
                    yield (ci, bs[:i] + (r,) + bs[i + 1:], joins, width, sem)
        for i in range(len(joins)):
            if joins[i] != "b":
                yield (ci, bs, joins[:i] + ("b",) + joins[i + 1:], width, sem)
        if sem and False in self.modes:
            yield (ci, bs, joins, width, False)
        if width != self.widths[0]:
            yield (ci, bs, joins, self.widths[0], sem)


# ---------------------------------------------------------------------------------------------------------------------
# Legal but unusual spellings of the same constructs (a second alphabet, explored as singles and in pairs with the core
# blocks in both orders): the formatter normalises them, and must not change what they mean.
UNUSUAL = [
    ("ul-tab", ["-\ta", "-\tb"]),
    ("ul-wide", ["-   a", "-   b"]),
    ("ul-star-plus", ["* a", "+ b"]),
    ("ol-9digits", ["123456789. a"]),
    ("ol-paren-nested", ["1) a", "   2) b"]),
    ("task-upper", ["- [X] a"]),
    ("setext-long", ["H", "=========="]),
    ("setext-2line", ["H1", "H2", "---"]),
    ("atx-empty", ["#"]),
    ("atx-trailing", ["# H #  "]),
    ("atx-indented", ["   ## H"]),
    ("html-comment-block", ["<!--", "c", "-->"]),
    ("html-pi", ["<?php", "x", "?>"]),
    ("html-script", ["<script>", "", "x", "</script>"]),
    ("html-div-md", ["<div>", "", "*a*", "", "</div>"]),
    ("def-multiline", ["[x]:", "  u", "  'title'"]),
    ("def-title-nextline", ["[x]: u", '"t"']),
    ("table-noedge-align", ["a|b", ":-|-:", "c|d"]),
    ("table-short-row", ["| a | b |", "|---|---|", "| c |"]),
    ("entity", ["&amp; &#35; &copy; &nosuch;"]),
    ("escapes", ["\\* \\_ \\` \\[ \\] \\< \\> \\# \\| \\~ \\\\"]),
    ("autolink-mail", ["<mailto:a@b.c> <a@b.c>"]),
    ("strike", ["~~a~~ ~b~"]),
    ("emph-intraword", ["a_b_c a*b*c __d__e"]),
    ("backslash-end", ["aa\\"]),
    ("fn-def-list", ["[^1]: a", "", "    - b", "    - c"]),
    ("bq-code", ["> ```", "> x", "> ```"]),
    ("bq-empty", [">"]),
    ("ul-code-first", ["- ```", "  x", "  ```"]),
    ("ul-hr", ["- ---"]),
    ("alert-multi", ["> [!WARNING]", "> a", ">", "> - b"]),
    ("nbsp", ["a\u00a0b c"]),
    ("cjk", ["\u4e2d\u6587abc \u4e2d\u6587"]),
    ("code-tab-indented", ["\tx"]),
    ("code-tilde-info-bt", ["~~~ a`b", "x", "~~~"]),
    ("hr-long", ["- - - - -"]),
    ("hr-indented", ["   ***"]),
    ("image-ref", ["![i][x]", "", "[x]: u"]),
    ("link-nested-brackets", ["[a [b] c](u)"]),
    ("code-span-bt-edge", ["`` `a` ``  ` b `"]),
]
CORE_NAMES = ("p", "p2", "h1", "setext2", "ul", "ul-loose", "ol", "ul-nested", "bq", "bq-lazy", "code", "code-indented", "table", "hr-",
              "def", "fn", "tag", "html", "hardbreak")


class UnusualSpace(BlockSpace):
    """Singles of UNUSUAL, and every pair (unusual, x) / (x, unusual) with x ranging over UNUSUAL and the core blocks.
    Alphabet = core blocks (index 0 = plain paragraph, so that shrinking moves towards it) followed by UNUSUAL."""

    def __init__(self, prop, name, oracle, ctxs, widths, modes=(False, True), floors=None):
        core = [b for n in CORE_NAMES for b in BLOCKS if b[0] == n]
        super().__init__(prop, name, oracle, ctxs, 2, widths, modes=modes, full_upto=2, floors=floors, blocks=core + UNUSUAL)
        self.nc = len(core)
        self.names = [b[0] for b in self.blocks]

    def cases(self):
        n = len(self.blocks)
        for ci in range(len(self.ctxs)):
            for u in range(self.nc, n):
                for width in self.widths:
                    for sem in self.modes:
                        yield (ci, (u,), (), width, sem)
            for u in range(self.nc, n):
                for x in range(n):
                    if x >= self.nc and x < u:
                        continue  # (unusual, unusual) pairs once per ordered pair
                    for bs in {(u, x), (x, u)}:
                        for j in ("b", "n"):
                            for width in self.widths:
                                for sem in self.modes:
                                    yield (ci, bs, (j,), width, sem)

    def rep_of(self, b):
        """Core representative of the same family, else the plain paragraph."""
        name = self.names[b]
        for prefix, rep in (("ul", "ul"), ("ol", "ol"), ("task", "ul"), ("bq", "bq"), ("alert", "bq"), ("code", "code"), ("table", "table"),
                            ("hr", "hr-"), ("def", "def"), ("fn", "fn"), ("setext", "setext2"), ("atx", "h1"), ("html", "html")):
            if name.startswith(prefix) and rep in self.names:
                return self.names.index(rep)
        return 0

    def smaller(self, case):
        ci, bs, joins, width, sem = case
        for i in range(len(bs)):
            for r in (self.rep_of(bs[i]), 0):
                if r != bs[i] and r < bs[i]:
                    yield (ci, bs[:i] + (r,) + bs[i + 1:], joins, width, sem)
        yield from super().smaller(case)

#!/venv/bin/python
"""Regenerates MANIFEST.json from the table below (keeps it valid at all times)."""
import json, os
HERE = os.path.dirname(os.path.abspath(__file__))
PY = "/venv/bin/python"

CHECKS = {
    "C01": dict(
        level="exploration",
        technique="bounded-exhaustive enumeration of hazard-token paragraphs, inline constructs and block sequences x contexts x critical widths x modes; re-parse oracle with two readers",
        text="Every document of the hazard, inline and block spaces (every block-syntax look-alike token at every position of a short "
             "paragraph, every separator, container contexts up to depth 2, every critical width so that each token lands at a line "
             "start, both line-break modes; all 1-3 block sequences of a 64-block alphabet with and without separating blank lines) is "
             "formatted and the output re-read with flowmark's own reader and, where it agrees on the input, with markdown-it-py; the "
             "normalised trees must be equal. Violations are reduced to minimal cases and compared with KNOWN_FINDINGS.txt.",
        note="Trusted: Marko 2.2.4 as Reader A, markdown-it-py 4.2 as Reader B, the normalisers in vf/readers.py. List tightness is compared by C10. Alphabets and bounds are finite (see evidence).",
        ref="DESIGN.md §2 C01"),
    "C02": dict(
        level="exploration",
        technique="bounded-exhaustive enumeration of documents x option combinations; byte comparison of one and two formatting passes",
        text="Every document of the mixed-token paragraph space (block look-alikes, inline constructs, typography tokens, template tags; "
             "all separators, contexts and critical widths, both modes), of the block-sequence space and of the plaintext space is formatted "
             "twice under a set of option combinations (all 24 cleanups/smartquotes/ellipses/list-spacing combinations in the thorough tier) "
             "and the two outputs must be byte-identical.",
        note="Trusted: nothing beyond the interpreter; the signature classes use Reader A only to describe a difference. Bounds in the evidence file.",
        ref="DESIGN.md §2 C02"),
    "C03": dict(
        level="exploration",
        technique="bounded-exhaustive enumeration of re-layouts and of ordered pairs of option sets; byte comparison against the canonical layout / the direct formatting",
        text="For every token sequence of the alphabet (words, sentence ends, block look-alikes, inline constructs, typography tokens, template "
             "tags) in every container context: every assignment of separators (one or two spaces, newline, newline + indent) to the gaps not "
             "adjacent to a tag is compared with the single-space layout (R1, only when Reader A reads both as the same document), and every "
             "ordered pair of (width, mode) option sets is run as first-then-second pass and compared with the direct formatting (R2); headings "
             "and table cells with runs of spaces are covered by a separate space, and so are the gaps INSIDE constructs (link text, reference labels in every reference form, emphasis, code spans: two spaces, a soft break, a soft break plus indent).",
        note="Trusted: Reader A for the meaning-preservation precondition. The newline-next-to-tag exception is implemented as: such gaps only vary between 1 and 2 spaces; histories whose first pass creates a tag-adjacent newline are skipped and counted.",
        ref="DESIGN.md §2 C03"),
    "C04": dict(
        level="exploration",
        technique="bounded-exhaustive enumeration of literal-span documents x option settings; sequence comparison of extracted spans (two readers for code blocks)",
        text="Every code block of the space (fence character x length x fence indentation x info string x every content line sequence over an 18-line alphabet "
             "including fence-like, prefix-like, blank, tab and trailing-space lines x container contexts x terminated/unterminated) and every "
             "sequence of literal-span tokens (code spans with every backtick configuration, links/images with every destination/title style, "
             "autolinks, bare URLs, inline HTML, template tags, comments) next to typography tokens in paragraphs, headings, list items and table "
             "cells is formatted under the typography/cleanup settings of the tier (all 8 combinations x widths x modes in thorough) and the "
             "sequence of literal spans extracted from the output must equal that of the input (code blocks, code spans, inline HTML, autolinks, "
             "link / image destinations and titles, definitions, template tags and comments, and the reference labels that links and images USE).",
        note="Trusted: the span extractor (vf/spans.py: Reader A + a hand-written tag scanner), markdown-it-py for the fence-sufficiency clause.",
        ref="DESIGN.md §2 C04"),
    "C06": dict(
        level="exploration",
        technique="bounded-exhaustive enumeration of tag/construct paragraphs x {adjacent, space, newline} separators x every critical width x modes, and of tag-delimited blocks; gap-profile and line-integrity oracle",
        text="Every paragraph over template tags, comments, inline HTML, code spans, links and words with every separator in {adjacent, space, "
             "newline}, in list/quote contexts, at every critical width (so every construct is wider than the width for some case) and width 0, "
             "in both modes: each construct must come out intact on one line, in order, and each gap must carry whitespace iff it did in the "
             "input; a tag alone on an unindented line must stay so; runs of up to 4 (5 thorough) tags with every mix of adjacent / separated "
             "boundaries at every critical width. Every tag-delimited block (4 tag syntaxes x 9 contents x blank-line and "
             "indentation variants x widths x modes, also after 8 kinds of preceding code / HTML blocks with unusual fences) must keep its tag lines alone and unindented, keep the list/table, and separate it from the tags by blank lines.",
        note="Trusted: literal token search in the output; Reader A for the list/table clause. Indented closing tags are outside the property (only required to survive).",
        ref="DESIGN.md §2 C06"),
    "C07": dict(
        level="exploration",
        technique="bounded-exhaustive enumeration of frontmatter line sequences x terminators x closers x bodies x options; differential oracle format(fm+body) = fm + format(body)",
        text="Every frontmatter body of up to 2 (quick) / 3 (thorough) lines over a 21-line alphabet (quotes, dots, Markdown syntax, trailing "
             "spaces, blank lines, a long line, and one line per character that Python's splitlines treats as a line boundary: U+2028, U+2029, "
             "NEL, FF, VT, FS/GS/RS, lone CR) x LF/CRLF x 4 closing-line forms (incl. missing) x leading blank line x 17 bodies (incl. uniformly indented ones) x 8 option sets is "
             "formatted; closed frontmatter must come out byte-identical (CRLF->LF) followed by exactly what the body alone formats to; unclosed "
             "frontmatter must come back unchanged plus a final newline and be a fixed point. The body is compared as written (CRLF kept). The same exactness clause is observed at the command line (file in place, file to stdout, stdin) for every line of the alphabet x LF/CRLF.",
        note="Trusted: the 12-line reference splitter in checks/c07.py. Bodies that begin with '---' are excluded from the independence clause.",
        ref="DESIGN.md §2 C07"),
    "C08": dict(
        level="exploration",
        technique="exhaustive enumeration of all short strings through smart_quotes(); bounded-exhaustive document enumeration with an option-on/option-off character-wise relation",
        text="Function level: every string of length <= 6 (quick) / 7 (thorough) over a 13-symbol alphabet of quotes, letters, a digit, space, dot, newline, "
             "tag delimiters, dash, parenthesis and backslash: output has the same length, differs only by straight->curly swaps of the right "
             "kind, leaves template tags untouched and never pairs quotes across a paragraph break. Document level: every token sequence over "
             "typography x inline x tag tokens in paragraphs, headings, table cells, list items, quotes and footnotes x widths x modes x other "
             "options: option-on and option-off outputs have equal length and line breaks and differ only at quote characters outside protected spans; "
             "two blocks formatted together equal the blocks formatted separately; reference links and images whose label holds quote characters, "
             "in every way of writing them, with their definitions.",
        note="Trusted: the protected-span regexes in checks/c08.py (deliberately independent of the repository's patterns).",
        ref="DESIGN.md §2 C08"),
    "C09": dict(
        level="exploration",
        technique="exhaustive enumeration of all short strings through ellipses(); bounded-exhaustive document enumeration with an option-on/option-off relation",
        text="Function level: every string of length <= 6 (quick) / 7 (thorough) over {letter, capital, space, dot, both quotes, comma, newline, dash, parenthesis, digit}: "
             "idempotent, no ellipsis invented, and mapping the ellipsis back to three dots gives the input up to the spaces around three-dot runs. "
             "Document level: every token sequence over dot/typography/inline/tag tokens in paragraphs, headings, table cells and containers x widths "
             "x modes x other options: same text (after mapping back, ignoring whitespace), same literal spans, same structure, and a second pass changes nothing.",
        note="Trusted: Reader A and the span extractor for the 'same structure / same spans' clauses.",
        ref="DESIGN.md §2 C09"),
    "C10": dict(
        level="exploration",
        technique="bounded-exhaustive enumeration of lists and headings x modes; reference-model comparison on the re-parsed trees",
        text="Every list of 1-3 (quick) / 1-4 (thorough) items over a 10-item alphabet (single paragraph, empty, two paragraphs, code, quote, nested "
             "tight/loose list, wrapped, heading, nested-first) x every tight/blank gap pattern x bullet/ordered x 7 contexts (quote, footnote, list, "
             "neighbours) is formatted in all three list-spacing modes: loose makes every multi-item list loose, tight makes every list of single-block "
             "items tight, preserve keeps each list's tightness, and the three outputs are equal up to blank lines and in structure. Every heading "
             "(5 forms x every sequence of up to 2 (quick) / 3 emphasis tokens x 11 contexts incl. footnote definitions, ordered items, alerts and two-layer nestings) is formatted with and without cleanups: the re-parsed tree must equal "
             "a 10-line reference unbolding of the cleanups-off tree and only heading lines may differ.",
        note="Trusted: Reader A (Marko) for tightness and structure; the reference unbold in checks/c10.py.",
        ref="DESIGN.md §2 C10"),
    "C11": dict(
        level="model_checking",
        technique="explicit-state reference model of the sentence wrapper, exhaustive trace enumeration replayed against the implementation, plus an exhaustive single-edit relation between traces",
        text="A reference sentence wrapper (greedy loop; line closed after a sentence end once it is >= 20 long) is run on every paragraph of "
             "up to 3 (quick) / 4 (thorough) sentences from a 15-shape pool chosen around the two thresholds, at 3-4 widths and 3 indent pairs, "
             "and every trace is replayed against line_wrap_by_sentence (first differing line classified). For every single-sentence replacement "
             "of every paragraph the lines before the previous sentence's last line and after the first later sentence that closes a line of >= 20 "
             "must be byte-identical. The sentence-end detector is compared with a regex-free reference on every word of <= 5/6 symbols over a "
             "12-symbol alphabet; documents with hard breaks, tags and code spans are checked through reformat_text in list/quote contexts.",
        note="Trusted: the reference wrapper and detector in checks/c11.py (both < 30 lines).",
        ref="DESIGN.md §2 C11"),
    "C15": dict(
        level="exploration",
        technique="complete enumeration of the option product x entry points, in-process and as real subprocesses; byte comparison with the text API",
        text="All 384 option sets (4 widths x plaintext x semantic x cleanups x smartquotes x ellipses x 3 list-spacing modes) are run through 13 "
             "entry points (file API to stdout / -o / in place with and without backup; CLI on a file to stdout / -o / -i / -i --nobackup; CLI on "
             "stdin to stdout / -o; CLI on three files to stdout / in place; CLI on a directory) in-process, and through the real "
             "`python -m flowmark.cli` subprocess for a pairwise-covering set (quick) or all 384 sets (thorough); every result must equal "
             "reformat_text(text, **options) byte for byte, per file in multi-file runs, with backups present/absent as requested and inputs "
             "untouched. --auto alone and with every other flag equals its expansion and the preset; 15 usage errors (incl. the offending argument after valid ones) exit non-zero with the tree unchanged. Byte streams: 11 byte-level documents (BOM, CRLF, lone CR, non-ASCII, NUL, empty, no final newline) x 7 entry points x 3 option sets through the real subprocess on real pipes must give reformat_text(decoded text) encoded as UTF-8.",
        note="Trusted: reformat_text as the reference. The document is proven at start-up to change under every single option.",
        ref="DESIGN.md §2 C15"),
    "C16": dict(
        level="exploration",
        technique="complete enumeration of flag x config x --auto x config-kind x location for every setting and every pair of settings; comparison with a precedence model at the intercepted call boundary",
        text="For each of the 13 settings alone (all 12 config kinds x 8 locations incl. a nearer pyproject.toml whose [tool.flowmark] table is empty; every spelling of the flag: short-option clusters, glued values, = forms, unambiguous abbreviations) and for every pair of settings (3 kinds x 3 locations in quick, "
             "all 96 in thorough): every flag state (absent / given with default value / given with another value) x every config state x "
             "--auto on/off is run through flowmark.cli.main in-process; the keyword arguments reaching reformat_files and the FileResolverConfig "
             "reaching FileResolver are intercepted and ALL 13 effective values (not only those under test: cross-talk) must equal the "
             "precedence model (flag, else --auto preset for the locked switches, else nearest config by file-name order per directory, else default). "
             "End to end: every key accepted without warning changes the CLI result for some pair of values; unknown keys warn and change nothing.",
        note="Trusted: the 8-line precedence model in checks/c16.py; interception by replacing two module attributes inside the harness process.",
        ref="DESIGN.md §2 C16"),
    "C18": dict(
        level="exploration",
        technique="bounded-exhaustive enumeration of .gitignore configurations in a fixed tree; differential oracle against real git",
        text="In a fixed tree (files named a.md/b.md/c.md at the root, in sub, sub/deep, other, other/sub) the .gitignore files at the root, in sub "
             "and in sub/deep take every sequence of 1-2 lines over a 24-pattern alphabet (basename, anchored, multi-segment, directory-only, *, **, "
             "?, negations, comment, escaped #, trailing space), alone, in pairs and in triples; for each configuration and for both walk roots (single-file configurations also with the root spelled through \"..\", through a symlinked directory and relative to a cwd inside the tree) "
             "the listing of FileResolver must equal `git ls-files -co --exclude-standard` run in the same tree (ignore files above the walk root "
             "removed for git), and with respect_gitignore off it must equal the listing with no .gitignore at all. History space: every sequence of 2 "
             "(quick) / 3 (thorough) configurations written to one directory path within one process, a new FileResolver per step, each listing equal to git's.",
        note="Trusted: git 2.39 with a private HOME and neutral configuration as the oracle.",
        ref="DESIGN.md §2 C18"),
    "C17": dict(
        level="exploration",
        technique="bounded-exhaustive enumeration of ignore-file placement x rule x settings x argument sequences in every order x listing orders on a universe tree; comparison with an independent reference walk",
        text="On a universe tree (files around the size limit, other extensions, hidden files, default- and user-excluded directories, the same "
             "directory name at several places, links to files and directories inside and outside, a dangling link, a cycle; with and without "
             "the links) a .flowmarkignore is placed at 4 places with each of 8 rule sets; for each of 8 setting combinations every sequence of "
             "up to 2 (quick) / 3 (thorough) arguments out of 17 (directories incl. non-canonical spellings with \"..\" and a symlinked directory, explicit files incl. excluded / oversized / linked ones, globs) in "
             "every order and under two directory listing orders is resolved and must equal an independent reference walk written from the property "
             "text (own gitignore matcher, validated against git): absolute, sorted, unique, independent of argument and listing order; `flowmark --list-files` with the same settings and arguments (in-process) must print exactly that list. History space: "
             "every sequence of 2 (quick) / 3 (thorough) tree states on ONE directory path within one process (ignore file moved / rewritten, a file "
             "growing over the limit, a directory appearing), a new FileResolver per step, each listing equal to the reference for the tree at that moment.",
        note="Trusted: the reference walk and vf/ignore_ref.py (agrees with git on all 600 one- and two-line pattern sets of the C18 alphabet).",
        ref="DESIGN.md §2 C17"),
    "C14": dict(
        level="fault_enumeration",
        technique="exhaustive crash-point, torn-write and fault enumeration on the real write path under an audit-hook fault injector",
        text="flowmark.cli.main runs in a forked child on a private tmpfs tree with every file-system operation numbered by an audit hook and "
             "wrappers around open/os.open/write/close. For 18 scenarios (in place with/without backup, --auto, 3 files, an undecodable file in the middle, -o into new "
             "directories, -o onto an existing file, stdin to -o, stdout only, a stale .orig, a .orig symlink, the formatter raising, a directory, symlink and hard-link inputs) "
             "the run is repeated with a crash before every operation and after every byte prefix of every write, with each of 4 errno values "
             "injected at every operation (writes also after a short prefix, and as a DEFERRED fault: the buffered write is accepted and the error surfaces at the next flush/close, which a file that is never closed explicitly only meets in __del__), and in the thorough tier with every pair of faults. After each "
             "execution every target holds the complete old or new content (or is absent with .orig == old when backups are on), no other file "
             "changed, and exit 0 implies everything was formatted. Conformance of the operation model: every scenario also runs fault-free as a real "
             "subprocess under strace and the attempted mutating system calls on the scenario directory must be exactly the numbered operations.",
        note="Process-death model with a coherent page cache (no power-loss reordering; flowmark does not fsync). Operations are observed at the Python audit-event / file-object / os-level API and validated against strace (skipped and recorded when ptrace is unavailable).",
        ref="DESIGN.md §2 C14"),
    "C13": dict(
        level="model_checking",
        technique="explicit-state exploration of call histories (fresh process per sequence, state fingerprints) and stateless exploration of all thread schedules up to a preemption bound under a controlled scheduler",
        text="Histories: every sequence of up to 2 (quick) / 3 (thorough) calls over 88 actions (22 setter/observer documents for each mutable "
             "renderer, parser and wrapper field, incl. documents that START with the construct reading a field and documents sharing link targets, x 4 option sets) runs in a fresh forked process that never called flowmark; after every call the "
             "output must equal the action's first-call-in-a-fresh-process baseline; process-wide mutable state is fingerprinted after every call. Pumped histories: P^k ; O for 3 large pump documents, k in {1, 8, 64} (256 thorough) and 4 observers (anything that runs out, fills up or wraps around). Same-document histories: 6 documents x every ordered pair (thorough: triple) of 10 option sets that differ in one dimension at one width (plaintext / fill / semantic, typography, list spacing), the collision a memo keyed on too little needs. "
             "Schedules: two threads, one reformat_text call each, on 8 colliding document pairs (both sides use the same construct with different "
             "parameters) under a cooperative scheduler whose scheduling points are all call events into flowmark/marko code (600-1500 per call): ALL "
             "schedules with one preemption, and all schedules with two preemptions at flowmark-function granularity (first 4 pairs quick, all pairs thorough); every thread's result must equal its solo result; sampled schedules "
             "are replayed and must reproduce identically.",
        note="Function-call granularity under the GIL; no weak-memory effects exist for pure-Python state. Lazily built caches are warmed before scheduling so that point counts are stable.",
        ref="DESIGN.md §2 C13"),
    "C12": dict(
        level="exploration",
        technique="exhaustive enumeration of all short strings over a punctuation alphabet and of delimiter-token sequences, plus pumped input families with a measured growth bound, under a per-case watchdog",
        text="Every string of length <= 3 (quick) / <= 5 (thorough) over a 29-symbol punctuation soup (all delimiters, quotes, whitespace incl. tab/CR, "
             "NUL, a letter, a digit) and every sequence of <= 2 / <= 3 tokens out of 56 delimiter tokens (openers and closers of every construct, "
             "entities, an astral character, U+4E2D, the internal placeholder syntax, CR/LF mixes) is formatted under 4 option sets (default, narrow "
             "with everything on, negative width, plaintext): no exception, no timeout, final newline in Markdown mode, no added control characters "
             "or placeholders, no trailing spaces on blank code lines. Every pump unit of <= 2 tokens out of 51 x prefix x suffix x option set is "
             "formatted at sizes 16..1024 (4096 thorough): CPU time < 10 s and growth exponent <= 2.5 between the two largest sizes above 20 ms. Lines space: "
             "every document of 3 (thorough: up to 4) short lines x 7 containers (incl. lazy continuation) x every line ending in {newline, backslash break, two-space break}.",
        note="Timing oracle: process CPU time, re-measured before alarming. Declared nesting bound 12 (container-opening units are pumped line-wise beyond it).",
        ref="DESIGN.md §2 C12"),
    "C05": dict(
        level="model_checking",
        technique="explicit-state model of the greedy filler, exhaustive trace enumeration + replay of every trace against the implementation",
        text="Every trace of a reference model of the line filler (state = column, line-non-empty, first-line; event = next word) is "
             "enumerated for all word-length vectors, widths, initial columns and continuation offsets inside the bound and replayed "
             "against wrap_paragraph_lines / wrap_paragraph / line_wrap_to_width / fill_text / reformat_text(plaintext) which must "
             "return the model's lines; model-independent postconditions (lossless, bounded, maximal, indented) are evaluated on every "
             "result, on marker words, on multi-word atomic constructs, on the sentence wrapper and on per-paragraph triples recorded "
             "inside fill_markdown at every container nesting in the bound. Segment spaces: paragraphs of tags, words and every separator (space, "
             "newline, hard break) are compared with a reference segmentation at width <= 0 (exactly one line per segment) and at widths > 0 "
             "(same words, at least one line per segment, no over-long line unless it is a single atomic token).",
        note="Trusted: the 40-line reference model and predicates in vf/wrapmodel.py; len() as length function; bounds as stated in the evidence file.",
        ref="DESIGN.md §2 C05"),
}

NOT_YET = {}

def main():
    props = [json.loads(l)["id"] for l in open(os.path.join(HERE, "properties.jsonl"))]
    checks = []
    for pid in props:
        c = CHECKS.get(pid)
        if not c:
            continue
        checks.append({
            "property_id": pid,
            "quick_cmd": f"{PY} check.py {pid} --tier quick",
            "thorough_cmd": f"{PY} check.py {pid} --tier thorough",
            "evidence_file": f"/verif/evidence/{pid}.json",
            "replay_cmd_template": f"{PY} check.py {pid} --replay {{path}}",
            "engine": "vf-explorer",
            "level_claimed": {"category": c["level"], "text": c["text"], "design_ref": c["ref"]},
            "level_note": c["note"],
            "technique": c["technique"],
        })
    na = [{"property_id": p, "reason": NOT_YET.get(p, "no check registered yet: the bounded-exhaustive check for this property is still being built (see DESIGN.md §2); nothing is claimed for it")}
          for p in props if p not in CHECKS]
    m = {
        "version": 1,
        "setup_cmd": f"{PY} -c \"import sys; sys.path.insert(0,'/verif'); from vf import core; core.bind(); import markdown_it, marko, pathspec; print('ok')\"",
        "hooks": {
            "guard": "FLOWMARK_VERIF",
            "enable": "no source hooks exist: checks import /repo/src directly (PYTHONPATH) and interpose from outside (line_wrapper= parameter, audit hooks, sys.setprofile, monkey-patching in the harness process); FLOWMARK_VERIF=1 is set by the harness for uniformity only",
            "baseline_off_cmd": "cd /repo && /venv/bin/python -m pytest -ra -q -p no:cacheprovider --timeout=900 --continue-on-collection-errors",
            "source_commits": [],
            "add_only": True,
        },
        "engines": [{"name": "vf-explorer", "path": "/verif/vf/explorer.py", "serves_properties": sorted(CHECKS),
                     "kind_free_text": "hand-written bounded-exhaustive explorer: sharded enumeration of finite case spaces, oracle per case, deterministic descent to minimal violators, known-findings matching, replay artefacts, measured evidence"}],
        "checks": checks,
        "notes": "All checks: /venv/bin/python check.py <id> --tier quick|thorough, honour VERIF_SEED (order/samples only) and VERIF_TIER; VERIF_REPO overrides /repo. Genuine defects: KNOWN_FINDINGS.txt.",
        "not_applicable": na,
    }
    with open(os.path.join(HERE, "MANIFEST.json"), "w") as f:
        json.dump(m, f, indent=1, ensure_ascii=False)
        f.write("\n")

if __name__ == "__main__":
    main()
